(* Floating point vs exact, for ANY generated term built from + - * fma neg and division by a
   literal: a-priori bound  |fl(e) - e| <= ((1+u)^depth(e) - 1) * absval(e)  under the standard model
   (no underflow, no overflow), and exactness when every partial result is representable. *)
From Coq Require Import ZArith Reals Lra Psatz List Bool Arith.
From Flocq Require Import Core BinarySingleNaN.
Require Import PP.FloatModel PP.Expr PP.FloatOps PP.FloatFacts PP.RealOps.
Import ListNotations.
Local Open Scope R_scope.

Definition th (n : nat) : R := (1 + u) ^ n - 1.
Lemma th_0 : th 0 = 0. Proof. unfold th; simpl; ring. Qed.
Lemma th_ge0 n : 0 <= th n.
Proof. unfold th. assert (1 <= (1+u)^n) by (apply pow_R1_Rle; generalize u_pos; lra). lra. Qed.
Lemma th_mono n m : (n <= m)%nat -> th n <= th m.
Proof. intros. unfold th. assert ((1+u)^n <= (1+u)^m) by (apply Rle_pow; [generalize u_pos; lra|assumption]). lra. Qed.
Lemma th_add a b : th (a + b) = th a * th b + th a + th b.
Proof. unfold th. rewrite pow_add. ring. Qed.
Lemma th_S k : th (S k) = th k * (1 + u) + u.
Proof. unfold th. simpl. ring. Qed.
(* the usual linearisation: (1+u)^n - 1 <= 2 n u  as long as 2 n u <= 1 *)
Lemma th_lin n : 2 * INR n * u <= 1 -> th n <= 2 * INR n * u.
Proof.
  assert (Hu := u_pos). induction n as [|n IH]; intros H.
  - rewrite th_0. simpl. lra.
  - rewrite S_INR in *. rewrite th_S.
    assert (Hn : 0 <= INR n) by apply pos_INR.
    assert (H1 : 2 * INR n * u <= 1) by nra.
    specialize (IH H1). nra.
Qed.

(* ---- the three combination steps ---- *)
Lemma step_round f r A d k : Rabs (f - r) <= th k * A -> Rabs r <= A -> Rabs d <= u ->
  Rabs (f * (1 + d) - r) <= th (S k) * A.
Proof.
  intros Hf Hr Hd. assert (Hu := u_pos). assert (T := th_ge0 k).
  assert (A0 : 0 <= A) by (generalize (Rabs_pos r); lra).
  replace (f * (1 + d) - r) with ((f - r) * (1 + d) + r * d) by ring.
  eapply Rle_trans; [apply Rabs_triang|]. rewrite !Rabs_mult, th_S.
  assert (D1 : Rabs (1 + d) <= 1 + u) by (eapply Rle_trans; [apply Rabs_triang|]; rewrite Rabs_R1; lra).
  assert (Q1 : Rabs (f - r) * Rabs (1 + d) <= (th k * A) * (1 + u)) by (apply Rmult_le_compat; auto using Rabs_pos).
  assert (Q2 : Rabs r * Rabs d <= A * u) by (apply Rmult_le_compat; auto using Rabs_pos).
  nra.
Qed.
Lemma step_sum fa ra Aa ka fb rb Ab kb :
  Rabs (fa - ra) <= th ka * Aa -> Rabs ra <= Aa -> Rabs (fb - rb) <= th kb * Ab -> Rabs rb <= Ab ->
  Rabs ((fa + fb) - (ra + rb)) <= th (Nat.max ka kb) * (Aa + Ab) /\ Rabs (ra + rb) <= Aa + Ab.
Proof.
  intros Ha Ra Hb Rb.
  assert (Aa0 : 0 <= Aa) by (generalize (Rabs_pos ra); lra).
  assert (Ab0 : 0 <= Ab) by (generalize (Rabs_pos rb); lra).
  assert (T1 : th ka <= th (Nat.max ka kb)) by (apply th_mono, Nat.le_max_l).
  assert (T2 : th kb <= th (Nat.max ka kb)) by (apply th_mono, Nat.le_max_r).
  assert (T0 := th_ge0 ka). assert (T0' := th_ge0 kb).
  split; [|eapply Rle_trans; [apply Rabs_triang|lra]].
  replace ((fa + fb) - (ra + rb)) with ((fa - ra) + (fb - rb)) by ring.
  eapply Rle_trans; [apply Rabs_triang|]. nra.
Qed.
Lemma step_diff fa ra Aa ka fb rb Ab kb :
  Rabs (fa - ra) <= th ka * Aa -> Rabs ra <= Aa -> Rabs (fb - rb) <= th kb * Ab -> Rabs rb <= Ab ->
  Rabs ((fa - fb) - (ra - rb)) <= th (Nat.max ka kb) * (Aa + Ab) /\ Rabs (ra - rb) <= Aa + Ab.
Proof.
  intros Ha Ra Hb Rb.
  assert (Hb' : Rabs (- fb - - rb) <= th kb * Ab) by (replace (- fb - - rb) with (- (fb - rb)) by ring; now rewrite Rabs_Ropp).
  assert (Rb' : Rabs (- rb) <= Ab) by now rewrite Rabs_Ropp.
  destruct (@step_sum fa ra Aa ka (- fb) (- rb) Ab kb Ha Ra Hb' Rb') as [H1 H2].
  split; [replace (fa - fb - (ra - rb)) with (fa + - fb - (ra + - rb)) by ring; exact H1|exact H2].
Qed.
Lemma step_prod fa ra Aa ka fb rb Ab kb :
  Rabs (fa - ra) <= th ka * Aa -> Rabs ra <= Aa -> Rabs (fb - rb) <= th kb * Ab -> Rabs rb <= Ab ->
  Rabs (fa * fb - ra * rb) <= th (ka + kb) * (Aa * Ab) /\ Rabs (ra * rb) <= Aa * Ab.
Proof.
  intros Ha Ra Hb Rb.
  assert (Aa0 : 0 <= Aa) by (generalize (Rabs_pos ra); lra).
  assert (Ab0 : 0 <= Ab) by (generalize (Rabs_pos rb); lra).
  assert (T0 := th_ge0 ka). assert (T1 := th_ge0 kb).
  split; [|rewrite Rabs_mult; apply Rmult_le_compat; auto using Rabs_pos].
  replace (fa * fb - ra * rb) with ((fa - ra) * (fb - rb) + (fa - ra) * rb + ra * (fb - rb)) by ring.
  eapply Rle_trans; [apply Rabs_triang|]. eapply Rle_trans; [apply Rplus_le_compat_r, Rabs_triang|].
  rewrite !Rabs_mult, th_add.
  assert (P1 : Rabs (fa - ra) * Rabs (fb - rb) <= (th ka * Aa) * (th kb * Ab)) by (apply Rmult_le_compat; auto using Rabs_pos).
  assert (P2 : Rabs (fa - ra) * Rabs rb <= (th ka * Aa) * Ab) by (apply Rmult_le_compat; auto using Rabs_pos).
  assert (P3 : Rabs ra * Rabs (fb - rb) <= Aa * (th kb * Ab)) by (apply Rmult_le_compat; auto using Rabs_pos).
  nra.
Qed.

(* ---- syntactic measures ---- *)
Fixpoint supported (e : expr) : bool :=
  match e with
  | Var _ | Lit _ => true
  | Add a b | Sub a b | Mul a b => supported a && supported b
  | Fma a b c => supported a && supported b && supported c
  | Neg a => supported a
  | Div a (Lit _) => supported a
  | _ => false
  end.
Fixpoint depth (e : expr) : nat :=
  match e with
  | Var _ | Lit _ => 0
  | Add a b | Sub a b => S (Nat.max (depth a) (depth b))
  | Mul a b => S (depth a + depth b)
  | Fma a b c => S (Nat.max (depth a + depth b) (depth c))
  | Neg a => depth a
  | Div a _ => S (depth a)
  | _ => 0
  end.
Fixpoint absval (env : list R) (e : expr) : R :=
  match e with
  | Var n => Rabs (nth n env 0)
  | Lit b => Rabs (litR b)
  | Add a b | Sub a b => absval env a + absval env b
  | Mul a b => absval env a * absval env b
  | Fma a b c => absval env a * absval env b + absval env c
  | Neg a => absval env a
  | Div a (Lit b) => absval env a / Rabs (litR b)
  | _ => 0
  end.

Definition fev (env : list F) (e : expr) : F := eval FOps0 env e.
Definition rval (env : list F) (e : expr) : R := eval ROps (map B2R env) e.

Section Safe.
Variable cond : R -> Prop.     (* what must hold of the exact result of every operation on the float operands *)
Fixpoint safe_gen (env : list F) (e : expr) : Prop :=
  match e with
  | Var n => is_finite (nth n env fnan) = true
  | Lit b => is_finite (of_bits b) = true
  | Add a b => safe_gen env a /\ safe_gen env b /\ cond (B2R (fev env a) + B2R (fev env b))
  | Sub a b => safe_gen env a /\ safe_gen env b /\ cond (B2R (fev env a) - B2R (fev env b))
  | Mul a b => safe_gen env a /\ safe_gen env b /\ cond (B2R (fev env a) * B2R (fev env b))
  | Fma a b c => safe_gen env a /\ safe_gen env b /\ safe_gen env c /\
                 cond (B2R (fev env a) * B2R (fev env b) + B2R (fev env c))
  | Neg a => safe_gen env a
  | Div a (Lit b) => safe_gen env a /\ is_finite (of_bits b) = true /\ litR b <> 0 /\
                     cond (B2R (fev env a) / litR b)
  | _ => False
  end.
End Safe.
(* no underflow, no overflow *)
Definition safe := safe_gen (fun r => nounder r /\ noover r).
(* every partial result exactly representable *)
Definition exact_safe := safe_gen (fun r => generic_format radix2 fexp64 r /\ Rabs r < bpow radix2 emax).

Lemma rev_var env n : nth n (map B2R env) 0 = B2R (nth n env fnan).
Proof. change 0 with (B2R fnan). apply map_nth. Qed.

Theorem eval_apriori env e : supported e = true -> safe env e ->
  is_finite (fev env e) = true /\
  Rabs (B2R (fev env e) - rval env e) <= th (depth e) * absval (map B2R env) e /\
  Rabs (rval env e) <= absval (map B2R env) e.
Proof.
  unfold safe. induction e; cbn [supported]; intros Hs Hsafe; try discriminate; cbn [safe_gen] in Hsafe.
  - (* Var *)
    unfold fev, rval. cbn [eval FOps0 FOps ROps o_default]. rewrite rev_var.
    split; [exact Hsafe|]. cbn [depth absval]. rewrite Rminus_diag_eq by reflexivity. rewrite Rabs_R0, th_0, rev_var. lra.
  - (* Lit *)
    unfold fev, rval. cbn [eval FOps0 FOps ROps o_lit]. unfold litR.
    split; [exact Hsafe|]. cbn [depth absval]. rewrite Rminus_diag_eq by reflexivity. rewrite Rabs_R0, th_0. unfold litR. lra.
  - (* Add *)
    apply andb_true_iff in Hs. destruct Hs as [S1 S2]. destruct Hsafe as (H1 & H2 & Hu & Ho).
    destruct (IHe1 S1 H1) as (F1 & E1 & R1). destruct (IHe2 S2 H2) as (F2 & E2 & R2).
    destruct (add_correct _ _ F1 F2 Ho) as [Ec Fc]. destruct (rnd_model _ Hu) as (d & Hd & Ed).
    change (fev env (Add e1 e2)) with (fadd (fev env e1) (fev env e2)).
    change (rval env (Add e1 e2)) with (rval env e1 + rval env e2).
    cbn [depth absval]. split; [exact Fc|]. rewrite Ec, Ed.
    destruct (step_sum _ _ _ _ _ _ _ _ E1 R1 E2 R2) as [Hs1 Hs2]. split; [|exact Hs2]. now apply step_round.
  - (* Sub *)
    apply andb_true_iff in Hs. destruct Hs as [S1 S2]. destruct Hsafe as (H1 & H2 & Hu & Ho).
    destruct (IHe1 S1 H1) as (F1 & E1 & R1). destruct (IHe2 S2 H2) as (F2 & E2 & R2).
    destruct (sub_correct _ _ F1 F2 Ho) as [Ec Fc]. destruct (rnd_model _ Hu) as (d & Hd & Ed).
    change (fev env (Sub e1 e2)) with (fsub (fev env e1) (fev env e2)).
    change (rval env (Sub e1 e2)) with (rval env e1 - rval env e2).
    cbn [depth absval]. split; [exact Fc|]. rewrite Ec, Ed.
    destruct (step_diff _ _ _ _ _ _ _ _ E1 R1 E2 R2) as [Hs1 Hs2]. split; [|exact Hs2]. now apply step_round.
  - (* Mul *)
    apply andb_true_iff in Hs. destruct Hs as [S1 S2]. destruct Hsafe as (H1 & H2 & Hu & Ho).
    destruct (IHe1 S1 H1) as (F1 & E1 & R1). destruct (IHe2 S2 H2) as (F2 & E2 & R2).
    destruct (mul_correct _ _ F1 F2 Ho) as [Ec Fc]. destruct (rnd_model _ Hu) as (d & Hd & Ed).
    change (fev env (Mul e1 e2)) with (fmul (fev env e1) (fev env e2)).
    change (rval env (Mul e1 e2)) with (rval env e1 * rval env e2).
    cbn [depth absval]. split; [exact Fc|]. rewrite Ec, Ed.
    destruct (step_prod _ _ _ _ _ _ _ _ E1 R1 E2 R2) as [Hs1 Hs2]. split; [|exact Hs2]. now apply step_round.
  - (* Div by literal *)
    destruct e2; try discriminate. destruct Hsafe as (H1 & Fb & Nb & Hu & Ho).
    destruct (IHe1 Hs H1) as (F1 & E1 & R1).
    assert (Nb' : B2R (of_bits bits) <> 0) by exact Nb.
    destruct (div_correct _ _ F1 Nb' Ho) as [Ec Fc]. destruct (rnd_model _ Hu) as (d & Hd & Ed).
    change (fev env (Div e1 (Lit bits))) with (fdiv (fev env e1) (of_bits bits)).
    change (rval env (Div e1 (Lit bits))) with (rval env e1 / litR bits).
    cbn [depth absval]. split; [exact Fc|]. rewrite Ec. change (B2R (of_bits bits)) with (litR bits). rewrite Ed.
    assert (Pb : 0 < Rabs (litR bits)) by now apply Rabs_pos_lt.
    assert (Hq : Rabs (B2R (fev env e1) / litR bits - rval env e1 / litR bits) <= th (depth e1) * (absval (map B2R env) e1 / Rabs (litR bits))).
    { replace (B2R (fev env e1) / litR bits - rval env e1 / litR bits) with ((B2R (fev env e1) - rval env e1) / litR bits) by (field; exact Nb).
      unfold Rdiv at 1. rewrite Rabs_mult, Rabs_inv. unfold Rdiv. rewrite <- Rmult_assoc.
      apply Rmult_le_compat_r; [left; now apply Rinv_0_lt_compat|exact E1]. }
    assert (Hr : Rabs (rval env e1 / litR bits) <= absval (map B2R env) e1 / Rabs (litR bits)).
    { unfold Rdiv. rewrite Rabs_mult, Rabs_inv. apply Rmult_le_compat_r; [left; now apply Rinv_0_lt_compat|exact R1]. }
    split; [|exact Hr]. now apply step_round.
  - (* Fma *)
    apply andb_true_iff in Hs. destruct Hs as [S12 S3]. apply andb_true_iff in S12. destruct S12 as [S1 S2].
    destruct Hsafe as (H1 & H2 & H3 & Hu & Ho).
    destruct (IHe1 S1 H1) as (F1 & E1 & R1). destruct (IHe2 S2 H2) as (F2 & E2 & R2). destruct (IHe3 S3 H3) as (F3 & E3 & R3).
    destruct (fma_correct _ _ _ F1 F2 F3 Ho) as [Ec Fc]. destruct (rnd_model _ Hu) as (d & Hd & Ed).
    change (fev env (Fma e1 e2 e3)) with (ffma (fev env e1) (fev env e2) (fev env e3)).
    change (rval env (Fma e1 e2 e3)) with (rval env e1 * rval env e2 + rval env e3).
    cbn [depth absval]. split; [exact Fc|]. rewrite Ec, Ed.
    destruct (step_prod _ _ _ _ _ _ _ _ E1 R1 E2 R2) as [Hp1 Hp2].
    destruct (step_sum _ _ _ _ _ _ _ _ Hp1 Hp2 E3 R3) as [Hs1 Hs2]. split; [|exact Hs2]. now apply step_round.
  - (* Neg *)
    destruct (IHe Hs Hsafe) as (F1 & E1 & R1). destruct (neg_correct (fev env e)) as [Ec Fc].
    change (fev env (Neg e)) with (fneg (fev env e)).
    change (rval env (Neg e)) with (- rval env e).
    cbn [depth absval]. split; [rewrite Fc; exact F1|]. rewrite Ec.
    replace (- B2R (fev env e) - - rval env e) with (- (B2R (fev env e) - rval env e)) by ring.
    rewrite !Rabs_Ropp. split; assumption.
Qed.

Lemma exact_noover r : generic_format radix2 fexp64 r -> Rabs r < bpow radix2 emax -> noover r /\ rnd r = r.
Proof. intros G B. assert (E := rnd_exact r G). unfold noover. rewrite E. auto. Qed.

Theorem eval_exact env e : supported e = true -> exact_safe env e ->
  is_finite (fev env e) = true /\ B2R (fev env e) = rval env e.
Proof.
  unfold exact_safe. induction e; cbn [supported]; intros Hs Hsafe; try discriminate; cbn [safe_gen] in Hsafe.
  - unfold fev, rval. cbn [eval FOps0 FOps ROps o_default]. rewrite rev_var. auto.
  - unfold fev, rval. cbn [eval FOps0 FOps ROps o_lit]. unfold litR. auto.
  - apply andb_true_iff in Hs. destruct Hs as [S1 S2]. destruct Hsafe as (H1 & H2 & G & B).
    destruct (IHe1 S1 H1) as (F1 & E1). destruct (IHe2 S2 H2) as (F2 & E2).
    destruct (exact_noover _ G B) as [Ho Er]. destruct (add_correct _ _ F1 F2 Ho) as [Ec Fc].
    change (fev env (Add e1 e2)) with (fadd (fev env e1) (fev env e2)).
    change (rval env (Add e1 e2)) with (rval env e1 + rval env e2).
    split; [exact Fc|]. rewrite Ec, Er, E1, E2. reflexivity.
  - apply andb_true_iff in Hs. destruct Hs as [S1 S2]. destruct Hsafe as (H1 & H2 & G & B).
    destruct (IHe1 S1 H1) as (F1 & E1). destruct (IHe2 S2 H2) as (F2 & E2).
    destruct (exact_noover _ G B) as [Ho Er]. destruct (sub_correct _ _ F1 F2 Ho) as [Ec Fc].
    change (fev env (Sub e1 e2)) with (fsub (fev env e1) (fev env e2)).
    change (rval env (Sub e1 e2)) with (rval env e1 - rval env e2).
    split; [exact Fc|]. rewrite Ec, Er, E1, E2. reflexivity.
  - apply andb_true_iff in Hs. destruct Hs as [S1 S2]. destruct Hsafe as (H1 & H2 & G & B).
    destruct (IHe1 S1 H1) as (F1 & E1). destruct (IHe2 S2 H2) as (F2 & E2).
    destruct (exact_noover _ G B) as [Ho Er]. destruct (mul_correct _ _ F1 F2 Ho) as [Ec Fc].
    change (fev env (Mul e1 e2)) with (fmul (fev env e1) (fev env e2)).
    change (rval env (Mul e1 e2)) with (rval env e1 * rval env e2).
    split; [exact Fc|]. rewrite Ec, Er, E1, E2. reflexivity.
  - destruct e2; try discriminate. destruct Hsafe as (H1 & Fb & Nb & G & B).
    destruct (IHe1 Hs H1) as (F1 & E1).
    assert (Nb' : B2R (of_bits bits) <> 0) by exact Nb.
    destruct (exact_noover _ G B) as [Ho Er]. destruct (div_correct _ _ F1 Nb' Ho) as [Ec Fc].
    change (fev env (Div e1 (Lit bits))) with (fdiv (fev env e1) (of_bits bits)).
    change (rval env (Div e1 (Lit bits))) with (rval env e1 / litR bits).
    split; [exact Fc|]. rewrite Ec. change (B2R (of_bits bits)) with (litR bits). rewrite Er, E1. reflexivity.
  - apply andb_true_iff in Hs. destruct Hs as [S12 S3]. apply andb_true_iff in S12. destruct S12 as [S1 S2].
    destruct Hsafe as (H1 & H2 & H3 & G & B).
    destruct (IHe1 S1 H1) as (F1 & E1). destruct (IHe2 S2 H2) as (F2 & E2). destruct (IHe3 S3 H3) as (F3 & E3).
    destruct (exact_noover _ G B) as [Ho Er]. destruct (fma_correct _ _ _ F1 F2 F3 Ho) as [Ec Fc].
    change (fev env (Fma e1 e2 e3)) with (ffma (fev env e1) (fev env e2) (fev env e3)).
    change (rval env (Fma e1 e2 e3)) with (rval env e1 * rval env e2 + rval env e3).
    split; [exact Fc|]. rewrite Ec, Er, E1, E2, E3. reflexivity.
  - destruct (IHe Hs Hsafe) as (F1 & E1). destruct (neg_correct (fev env e)) as [Ec Fc].
    change (fev env (Neg e)) with (fneg (fev env e)).
    change (rval env (Neg e)) with (- rval env e).
    split; [rewrite Fc; exact F1|]. rewrite Ec, E1. reflexivity.
Qed.

(* the bound in the form the properties use: at most 2*depth*u times the magnitudes *)
Corollary eval_apriori_lin env e : supported e = true -> safe env e -> 2 * INR (depth e) * u <= 1 ->
  Rabs (B2R (fev env e) - rval env e) <= 2 * INR (depth e) * u * absval (map B2R env) e.
Proof.
  intros Hs Hsafe Hd. destruct (eval_apriori env e Hs Hsafe) as (_ & E & R0).
  eapply Rle_trans; [exact E|]. apply Rmult_le_compat_r; [|now apply th_lin].
  eapply Rle_trans; [apply Rabs_pos|exact R0].
Qed.

(* substitution: composing kernels *)
Fixpoint subst (s : list expr) (e : expr) : expr :=
  match e with
  | Var n => nth n s (Var n)
  | Lit b => Lit b
  | Add a b => Add (subst s a) (subst s b) | Sub a b => Sub (subst s a) (subst s b)
  | Mul a b => Mul (subst s a) (subst s b) | Div a b => Div (subst s a) (subst s b)
  | Fma a b c => Fma (subst s a) (subst s b) (subst s c)
  | Neg a => Neg (subst s a) | Max a b => Max (subst s a) (subst s b)
  | Min a b => Min (subst s a) (subst s b) | Abs a => Abs (subst s a)
  | Ln a => Ln (subst s a) | Exp a => Exp (subst s a)
  | If c t e => If (bsubst s c) (subst s t) (subst s e)
  end
with bsubst (s : list expr) (c : bexpr) : bexpr :=
  match c with
  | Lt a b => Lt (subst s a) (subst s b) | Le a b => Le (subst s a) (subst s b) | Eqf a b => Eqf (subst s a) (subst s b)
  | BAnd c d => BAnd (bsubst s c) (bsubst s d) | BOr c d => BOr (bsubst s c) (bsubst s d)
  | BNot c => BNot (bsubst s c) | BTrue => BTrue | BFalse => BFalse
  | BAbsDiffEq a b e => BAbsDiffEq (subst s a) (subst s b) (subst s e)
  | BRelEq a b e r => BRelEq (subst s a) (subst s b) (subst s e) (subst s r)
  end.

(* semantics of substitution, in any carrier *)
Scheme expr_mind := Induction for expr Sort Prop
  with bexpr_mind := Induction for bexpr Sort Prop.
Combined Scheme expr_bexpr_ind from expr_mind, bexpr_mind.
Fixpoint closed_below (n : nat) (e : expr) : bool :=
  match e with
  | Var k => Nat.ltb k n
  | Lit _ => true
  | Add a b | Sub a b | Mul a b | Div a b | Max a b | Min a b => closed_below n a && closed_below n b
  | Fma a b c => closed_below n a && closed_below n b && closed_below n c
  | Neg a | Ln a | Exp a | Abs a => closed_below n a
  | If c t e => bclosed_below n c && closed_below n t && closed_below n e
  end
with bclosed_below (n : nat) (c : bexpr) : bool :=
  match c with
  | Lt a b | Le a b | Eqf a b => closed_below n a && closed_below n b
  | BAnd c d | BOr c d => bclosed_below n c && bclosed_below n d
  | BNot c => bclosed_below n c
  | BTrue | BFalse => true
  | BAbsDiffEq a b e => closed_below n a && closed_below n b && closed_below n e
  | BRelEq a b e r => closed_below n a && closed_below n b && closed_below n e && closed_below n r
  end.

Section Subst.
Context {T : Type} (O : Ops T).
Lemma eval_subst_both (s : list expr) (env : list T) :
  (forall e, closed_below (length s) e = true -> eval O env (subst s e) = eval O (map (eval O env) s) e) /\
  (forall c, bclosed_below (length s) c = true -> beval O env (bsubst s c) = beval O (map (eval O env) s) c).
Proof.
  apply expr_bexpr_ind;
    cbn [closed_below bclosed_below subst bsubst eval beval]; intros;
    fold (@beval T O) in *; fold (@eval T O) in *;
    repeat match goal with H : _ && _ = true |- _ => apply andb_true_iff in H; destruct H end;
    repeat match goal with H : _ -> _ = _ |- _ => rewrite H by assumption end; try reflexivity.
  (* Var *)
  match goal with H : Nat.ltb _ _ = true |- _ => apply Nat.ltb_lt in H end.
  rewrite (nth_indep _ (Var n) (Lit 0)) by assumption.
  rewrite <- (map_nth (eval O env)). apply nth_indep. now rewrite map_length.
Qed.
Lemma eval_subst s env e : closed_below (length s) e = true -> eval O env (subst s e) = eval O (map (eval O env) s) e.
Proof. apply eval_subst_both. Qed.
End Subst.

(* a supported term never consults the libm oracles *)
Lemma eval_oracle_free lnf expf env e : supported e = true -> eval (FOpsG lnf expf) env e = eval FOps0 env e.
Proof.
  induction e; cbn [supported]; intros Hs; try discriminate; cbn [eval FOpsG FOps0 FOps o_lit o_add o_sub o_mul o_div o_fma o_neg o_default];
    repeat match goal with H : _ && _ = true |- _ => apply andb_true_iff in H; destruct H end;
    try reflexivity; try (rewrite ?IHe1, ?IHe2, ?IHe3, ?IHe by assumption; reflexivity).
  destruct e2; try discriminate. rewrite IHe1 by assumption. reflexivity.
Qed.
