(* Lane shapes: a kernel output that is ONE binary64 operation on input numbers is, by IEEE-754,
   the correctly rounded result of that operation.  A boolean checker decides the shape of a
   generated expression; its soundness is proved once here (C14, C15, C08, C07 use it). *)
From Coq Require Import ZArith List Bool Arith.
Require Import PP.FloatModel PP.Expr PP.FloatOps PP.FloatFacts.
Import ListNotations.

Inductive lane :=
 | LVar (i : nat)                 (* the input, untouched (bit-identical) *)
 | LLit (b : Z)                   (* a constant *)
 | LMul (i j : nat)               (* x_i * x_j, correctly rounded *)
 | LNeg (i : nat)                 (* -x_i (exact) *)
 | LAdd (i j : nat) | LSub (i j : nat)
 | LMulLit (i : nat) (b : Z)      (* x_i * constant *)
 | LDivLit (i : nat) (b : Z)      (* x_i / constant *)
 | LMax (i j : nat).              (* f64::max(x_i, x_j) *)

Definition m1_bits : Z := 13830554455654793216.   (* -1.0 *)

Definition lane_ok (sp : lane) (e : expr) : bool :=
  match sp, e with
  | LVar i, Var a => Nat.eqb a i
  | LLit b, Lit c => Z.eqb b c
  | LMul i j, Mul (Var a) (Var b) => (Nat.eqb a i && Nat.eqb b j) || (Nat.eqb a j && Nat.eqb b i)
  | LNeg i, Neg (Var a) => Nat.eqb a i
  | LNeg i, Mul (Var a) (Lit c) => Nat.eqb a i && Z.eqb c m1_bits
  | LNeg i, Mul (Lit c) (Var a) => Nat.eqb a i && Z.eqb c m1_bits
  | LAdd i j, Add (Var a) (Var b) => (Nat.eqb a i && Nat.eqb b j) || (Nat.eqb a j && Nat.eqb b i)
  | LSub i j, Sub (Var a) (Var b) => Nat.eqb a i && Nat.eqb b j
  | LMulLit i c, Mul (Var a) (Lit d) => Nat.eqb a i && Z.eqb c d
  | LMulLit i c, Mul (Lit d) (Var a) => Nat.eqb a i && Z.eqb c d
  | LDivLit i c, Div (Var a) (Lit d) => Nat.eqb a i && Z.eqb c d
  | LMax i j, Max (Var a) (Var b) => Nat.eqb a i && Nat.eqb b j
  | _, _ => false
  end.

Definition lane_sem (env : list F) (sp : lane) : F :=
  let x i := nth i env fnan in
  match sp with
  | LVar i => x i
  | LLit b => of_bits b
  | LMul i j => fmul (x i) (x j)
  | LNeg i => fneg (x i)
  | LAdd i j => fadd (x i) (x j)
  | LSub i j => fsub (x i) (x j)
  | LMulLit i b => fmul (x i) (of_bits b)
  | LDivLit i b => fdiv (x i) (of_bits b)
  | LMax i j => fmax (x i) (x j)
  end.

Ltac eqb_true :=
  repeat match goal with
  | H : _ && _ = true |- _ => apply andb_true_iff in H; destruct H
  | H : _ || _ = true |- _ => apply orb_true_iff in H; destruct H
  | H : Nat.eqb _ _ = true |- _ => apply Nat.eqb_eq in H; subst
  | H : Z.eqb _ _ = true |- _ => apply Z.eqb_eq in H; subst
  end.

Theorem lane_ok_sem sp e env : lane_ok sp e = true -> eval FOps0 env e = lane_sem env sp.
Proof.
  destruct sp; destruct e; cbn [lane_ok]; try discriminate;
    repeat match goal with
    | |- context [match ?x with _ => _ end] => destruct x; try discriminate
    end; intros H; eqb_true; cbn [eval FOps0 FOps FOpsG o_lit o_add o_sub o_mul o_div o_neg o_max o_default lane_sem];
    try reflexivity; try apply fmul_comm; try apply fadd_comm;
    try (fold f_m1; apply fmul_m1);
    try (change (of_bits m1_bits) with f_m1; rewrite fmul_comm; apply fmul_m1).
Qed.

Definition kernel_ok (sps : list lane) (k : list expr) : bool :=
  Nat.eqb (length sps) (length k) && forallb (fun p => lane_ok (fst p) (snd p)) (combine sps k).

Theorem kernel_ok_sem sps k env : kernel_ok sps k = true -> evals FOps0 env k = map (lane_sem env) sps.
Proof.
  unfold kernel_ok, evals. intros H. apply andb_true_iff in H. destruct H as [Hl Hf]. apply Nat.eqb_eq in Hl.
  revert k Hl Hf. induction sps as [|sp r IH]; intros [|e k] Hl Hf; try discriminate; [reflexivity|].
  cbn in *. apply andb_true_iff in Hf. destruct Hf as [H1 H2]. f_equal; [now apply lane_ok_sem|]. apply IH; [congruence|exact H2].
Qed.

(* spec generators: n = number of numbers of the value; Segment<T> adds a leading `end` lane *)
Definition spec_mul (n : nat) : list lane := map (fun i => LMul i n) (seq 0 n).
Definition spec_neg (n : nat) : list lane := map LNeg (seq 0 n).
Definition spec_add (n : nat) : list lane := map (fun i => LAdd i (n + i)) (seq 0 n).
Definition spec_sub (n : nat) : list lane := map (fun i => LSub i (n + i)) (seq 0 n).
(* translate adds the scalar (input n) to the additive constant at lane c only *)
Definition spec_translate (n c : nat) : list lane := map (fun i => if Nat.eqb i c then LAdd i n else LVar i) (seq 0 n).
(* the same on a Segment: lane 0 (`end`) untouched, payload shifted by one *)
Definition shift_lane (sp : lane) : lane :=
  match sp with
  | LVar i => LVar (S i) | LLit b => LLit b | LMul i j => LMul (S i) (S j) | LNeg i => LNeg (S i)
  | LAdd i j => LAdd (S i) (S j) | LSub i j => LSub (S i) (S j) | LMulLit i b => LMulLit (S i) b | LDivLit i b => LDivLit (S i) b
  | LMax i j => LMax (S i) (S j)
  end.
Definition spec_segment (sps : list lane) : list lane := LVar 0 :: map shift_lane sps.

(* a table of (kernel, expected lanes): checked by computation, meaning by kernel_ok_sem *)
Definition table_ok (t : list (list expr * list lane)) : bool :=
  forallb (fun p => kernel_ok (snd p) (fst p)) t.
Theorem table_ok_sem t : table_ok t = true ->
  Forall (fun p => forall env, evals FOps0 env (fst p) = map (lane_sem env) (snd p)) t.
Proof.
  unfold table_ok. rewrite forallb_forall. intros H. apply Forall_forall. intros p Hin env.
  apply kernel_ok_sem. now apply H.
Qed.
(* pairs of kernels that must compute identical bits (MulAssign vs Mul, by-ref vs by-value) *)
Definition pairs_ok (t : list (list expr * list expr * list lane)) : bool :=
  forallb (fun p => kernel_ok (snd p) (fst (fst p)) && kernel_ok (snd p) (snd (fst p))) t.
Theorem pairs_ok_sem t : pairs_ok t = true ->
  Forall (fun p => forall env, evals FOps0 env (fst (fst p)) = evals FOps0 env (snd (fst p))) t.
Proof.
  unfold pairs_ok. rewrite forallb_forall. intros H. apply Forall_forall. intros p Hin env.
  specialize (H p Hin). apply andb_true_iff in H. destruct H as [H1 H2].
  rewrite (kernel_ok_sem _ _ env H1), (kernel_ok_sem _ _ env H2). reflexivity.
Qed.
