(* The order on non-NaN binary64: Bltb / Bleb form a strict weak order / total preorder.
   Proved through an order embedding key : F -> R (infinities mapped beyond every finite). *)
From Coq Require Import ZArith Reals Lra Bool.
From Flocq Require Import Core.Core IEEE754.BinarySingleNaN.
Require Import PP.FloatModel.
Local Open Scope R_scope.

Definition ok (x : F) : Prop := is_nanb x = false.
Definition big : R := bpow radix2 emax.
Definition key (x : F) : R :=
  match x with
  | B754_infinity false => big
  | B754_infinity true => - big
  | _ => B2R x
  end.

Lemma key_fin x : is_finite x = true -> - big < key x < big.
Proof.
  intros Fx. assert (H := abs_B2R_lt_emax prec emax x). fold big in H.
  destruct x as [s|s| |s m e B]; try discriminate; cbn [key]; apply Rabs_def2 in H; lra.
Qed.
Lemma big_pos : 0 < big. Proof. apply bpow_gt_0. Qed.

Lemma flt_key x y : ok x -> ok y -> flt x y = Rlt_bool (key x) (key y).
Proof.
  unfold ok, is_nanb, flt. intros Hx Hy.
  destruct (is_finite x) eqn:Fx; destruct (is_finite y) eqn:Fy.
  - rewrite Bltb_correct by assumption.
    destruct x as [s|s| |s m e B]; try discriminate; destruct y as [s'|s'| |s' m' e' B']; try discriminate; reflexivity.
  - destruct y as [s'|s'| |s' m' e' B']; try discriminate.
    assert (K := key_fin x Fx). assert (P := big_pos).
    destruct x as [s|s| |s m e B]; try discriminate; destruct s'; cbn [key] in *;
      (case Rlt_bool_spec; intro; [|]); try reflexivity; try lra; destruct s; try reflexivity.
  - destruct x as [s|s| |s m e B]; try discriminate.
    assert (K := key_fin y Fy). assert (P := big_pos).
    destruct y as [s'|s'| |s' m' e' B']; try discriminate; destruct s; cbn [key] in *;
      (case Rlt_bool_spec; intro; [|]); try reflexivity; try lra; destruct s'; try reflexivity.
  - destruct x as [s|s| |s m e B]; try discriminate; destruct y as [s'|s'| |s' m' e' B']; try discriminate.
    assert (P := big_pos). destruct s, s'; cbn [key]; case Rlt_bool_spec; intro; try reflexivity; try lra.
Qed.

Lemma fle_key x y : ok x -> ok y -> fle x y = Rle_bool (key x) (key y).
Proof.
  unfold ok, is_nanb, fle. intros Hx Hy.
  destruct (is_finite x) eqn:Fx; destruct (is_finite y) eqn:Fy.
  - rewrite Bleb_correct by assumption.
    destruct x as [s|s| |s m e B]; try discriminate; destruct y as [s'|s'| |s' m' e' B']; try discriminate; reflexivity.
  - destruct y as [s'|s'| |s' m' e' B']; try discriminate.
    assert (K := key_fin x Fx). assert (P := big_pos).
    destruct x as [s|s| |s m e B]; try discriminate; destruct s'; cbn [key] in *;
      (case Rle_bool_spec; intro; [|]); try reflexivity; try lra; destruct s; try reflexivity.
  - destruct x as [s|s| |s m e B]; try discriminate.
    assert (K := key_fin y Fy). assert (P := big_pos).
    destruct y as [s'|s'| |s' m' e' B']; try discriminate; destruct s; cbn [key] in *;
      (case Rle_bool_spec; intro; [|]); try reflexivity; try lra; destruct s'; try reflexivity.
  - destruct x as [s|s| |s m e B]; try discriminate; destruct y as [s'|s'| |s' m' e' B']; try discriminate.
    assert (P := big_pos). destruct s, s'; cbn [key]; case Rle_bool_spec; intro; try reflexivity; try lra.
Qed.

Lemma f_le_lt a b : ok a -> ok b -> fle a b = negb (flt b a).
Proof. intros. rewrite fle_key, flt_key by assumption. case Rle_bool_spec; case Rlt_bool_spec; intros; try reflexivity; lra. Qed.
Lemma f_lt_trans a b c : ok a -> ok b -> ok c -> flt a b = true -> flt b c = true -> flt a c = true.
Proof. intros ? ? ?. rewrite !flt_key by assumption. repeat case Rlt_bool_spec; intros; try reflexivity; try discriminate; lra. Qed.
Lemma f_nlt_trans a b c : ok a -> ok b -> ok c -> flt a b = false -> flt b c = false -> flt a c = false.
Proof. intros ? ? ?. rewrite !flt_key by assumption. repeat case Rlt_bool_spec; intros; try reflexivity; try discriminate; lra. Qed.
Lemma f_lt_irrefl a : ok a -> flt a a = false.
Proof. intros. rewrite flt_key by assumption. case Rlt_bool_spec; intros; try reflexivity; lra. Qed.
Lemma f_nan_cmp (x y : F) : is_nanb x = true \/ is_nanb y = true -> flt x y = false /\ fle x y = false.
Proof. intros [H|H]; destruct x as [s|s| |s m e B]; try discriminate; destruct y as [s'|s'| |s' m' e' B']; try discriminate; split; reflexivity. Qed.

(* Bcompare (partial_cmp) against the order *)
Lemma fcmp_nan x y : fcmp x y = None <-> (is_nanb x = true \/ is_nanb y = true).
Proof.
  unfold fcmp, is_nanb. destruct x as [s|s| |s m e B]; destruct y as [s'|s'| |s' m' e' B']; cbn;
    split; intros H; try discriminate; try (left; reflexivity); try (right; reflexivity); try reflexivity;
    try (destruct H; discriminate);
    repeat match goal with |- context [if ?b then _ else _] => destruct b end; try discriminate.
  all: try (destruct H as [H|H]; discriminate).
  all: try (destruct (e ?= e')%Z; try discriminate; destruct (Pos.compare_cont Eq m m'); discriminate).
Qed.

Lemma fcmp_swap x y : fcmp y x = match fcmp x y with Some c => Some (CompOpp c) | None => None end.
Proof. unfold fcmp. apply Bcompare_swap. Qed.
Lemma fcmp_lt a b : fcmp a b = Some Lt -> flt a b = true.
Proof. unfold fcmp, flt, Bltb, Bcompare, SpecFloat.SFltb. now intros ->. Qed.
Lemma fcmp_gt a b : fcmp a b = Some Gt -> flt b a = true.
Proof. intros H. apply fcmp_lt. rewrite fcmp_swap, H. reflexivity. Qed.
Lemma fcmp_eq a b : fcmp a b = Some Eq -> flt a b = false /\ flt b a = false.
Proof.
  intros H. split.
  - unfold fcmp, flt, Bltb, Bcompare, SpecFloat.SFltb in *. now rewrite H.
  - assert (H2 : fcmp b a = Some Eq) by (rewrite fcmp_swap, H; reflexivity).
    unfold fcmp, flt, Bltb, Bcompare, SpecFloat.SFltb in *. now rewrite H2.
Qed.
Lemma fcmp_ok a b : ok a -> ok b -> exists c, fcmp a b = Some c.
Proof.
  intros Ha Hb. destruct (fcmp a b) eqn:E; [eauto|].
  apply fcmp_nan in E. unfold ok in *. destruct E; congruence.
Qed.
Lemma f_lt_trans_asym a b : ok a -> ok b -> flt a b = true -> flt b a = false.
Proof.
  intros Ha Hb H. destruct (flt b a) eqn:E; [|reflexivity].
  rewrite <- (f_lt_irrefl a Ha). symmetry. eapply f_lt_trans; eauto.
Qed.
