(* The binary64 instance of Ops: the faithful, executable meaning of a kernel. *)
From Coq Require Import ZArith List Bool.
Require Import PP.FloatModel PP.Expr.
Import ListNotations.
Local Open Scope Z_scope.

(* approx 0.5.1, impl AbsDiffEq for f64:  (if a > b { a - b } else { b - a }) <= eps
   (for floats the crate uses  T::abs(self - other) <= epsilon) *)
Definition f_absdiffeq (a b eps : F) : bool := fle (fabs (fsub a b)) eps.

(* approx 0.5.1, impl RelativeEq for f64:
     if self == other { return true }
     if self.is_infinite() || other.is_infinite() { return false }
     let abs_diff = (self - other).abs();
     if abs_diff <= epsilon { return true }
     let abs_self = self.abs(); let abs_other = other.abs();
     let largest = if abs_other > abs_self { abs_other } else { abs_self };
     abs_diff <= largest * max_relative *)
Definition is_infb (a : F) : bool :=
  match a with Flocq.IEEE754.BinarySingleNaN.B754_infinity _ => true | _ => false end.
Definition f_releq (a b eps rel : F) : bool :=
  if feq a b then true
  else if is_infb a || is_infb b then false
  else let d := fabs (fsub a b) in
       if fle d eps then true
       else let aa := fabs a in let ab := fabs b in
            let largest := if flt aa ab then ab else aa in
            fle d (fmul largest rel).

(* libm oracles by table lookup on bit patterns; a miss yields NaN-tagged error value *)
Definition lookup_tbl (tbl : list (Z * Z)) (x : F) : F :=
  let b := to_bits x in
  match find (fun p => Z.eqb (fst p) b) tbl with
  | Some p => of_bits (snd p)
  | None => of_bits 9221120237041090561      (* a NaN: can never compare equal to a real result *)
  end.

(* binary64 operations with ARBITRARY libm oracles ln_f, exp_f *)
Definition FOpsG (ln_f exp_f : F -> F) : Ops F := {|
  o_lit := of_bits;
  o_add := fadd; o_sub := fsub; o_mul := fmul; o_div := fdiv; o_fma := ffma;
  o_neg := fneg; o_max := fmax; o_min := fmin; o_abs := fabs;
  o_ln := ln_f; o_exp := exp_f;
  o_lt := flt; o_le := fle; o_eq := feq;
  o_absdiffeq := f_absdiffeq; o_releq := f_releq;
  o_default := fnan
|}.
Definition FOps (ln_tbl exp_tbl : list (Z * Z)) : Ops F := FOpsG (lookup_tbl ln_tbl) (lookup_tbl exp_tbl).

Definition FOps0 : Ops F := FOps [] [].

(* run a kernel on bit patterns, return bit patterns *)
Definition run_kernel (ln_tbl exp_tbl : list (Z * Z)) (k : list expr) (args : list Z) : list Z :=
  map to_bits (evals (FOps ln_tbl exp_tbl) (map of_bits args) k).
Definition run_bkernel (k : bexpr) (args : list Z) : list Z :=
  [if beval FOps0 (map of_bits args) k then 1 else 0].
