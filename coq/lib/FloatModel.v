(* Bit-exact executable model of Rust f64 on Flocq's BinarySingleNaN binary64. *)
From Coq Require Import ZArith List Bool.
From Flocq Require Import Core BinarySingleNaN Binary Bits.
Import ListNotations.
Local Open Scope Z_scope.

Definition prec : Z := 53.
Definition emax : Z := 1024.
Global Instance Hprec : FLX.Prec_gt_0 prec. Proof. reflexivity. Qed.
Global Instance Hemax : Prec_lt_emax prec emax. Proof. reflexivity. Qed.

Definition F := BinarySingleNaN.binary_float prec emax.

Definition of_bits (z : Z) : F := Binary.B2BSN prec emax (Bits.b64_of_bits z).

Definition sign_bit (s : bool) : Z := if s then 9223372036854775808 else 0.
Definition nan_bits : Z := 9221120237041090560.   (* 0x7FF8000000000000, the canonical quiet NaN *)
Definition to_bits (x : F) : Z :=
  match x with
  | BinarySingleNaN.B754_zero s => sign_bit s
  | BinarySingleNaN.B754_infinity s => sign_bit s + 9218868437227405312
  | BinarySingleNaN.B754_nan => nan_bits
  | BinarySingleNaN.B754_finite s m e _ =>
      sign_bit s +
      (if Z.leb 4503599627370496 (Zpos m)
       then (e + 1075) * 4503599627370496 + (Zpos m - 4503599627370496)
       else Zpos m)
  end.

Definition fadd (a b : F) : F := BinarySingleNaN.Bplus BinarySingleNaN.mode_NE a b.
Definition fsub (a b : F) : F := BinarySingleNaN.Bminus BinarySingleNaN.mode_NE a b.
Definition fmul (a b : F) : F := BinarySingleNaN.Bmult BinarySingleNaN.mode_NE a b.
Definition fdiv (a b : F) : F := BinarySingleNaN.Bdiv BinarySingleNaN.mode_NE a b.
Definition ffma (a b c : F) : F := BinarySingleNaN.Bfma BinarySingleNaN.mode_NE a b c.   (* a*b+c, one rounding *)
Definition fneg (a : F) : F := BinarySingleNaN.Bopp a.
Definition fabs (a : F) : F := BinarySingleNaN.Babs a.
Definition flt (a b : F) : bool := BinarySingleNaN.Bltb a b.
Definition fle (a b : F) : bool := BinarySingleNaN.Bleb a b.
Definition feq (a b : F) : bool := BinarySingleNaN.Beqb a b.
Definition fcmp (a b : F) : option comparison := BinarySingleNaN.Bcompare a b.
Definition fnan : F := BinarySingleNaN.B754_nan.
Definition fzero : F := BinarySingleNaN.B754_zero false.
Definition fone : F := of_bits 4607182418800017408.
Definition is_nanb (a : F) : bool := BinarySingleNaN.is_nan a.
(* f64::max: if one operand is NaN return the other; sign of max(+0,-0) unspecified in std
   (compared modulo zero sign by the correspondence driver). *)
Definition fmax (a b : F) : F :=
  if is_nanb a then b else if is_nanb b then a else if flt a b then b else a.
(* f64::min, symmetric to max *)
Definition fmin (a b : F) : F :=
  if is_nanb a then b else if is_nanb b then a else if flt b a then b else a.
(* f64::is_normal: finite, non-zero, not subnormal *)
Definition is_normalb (a : F) : bool :=
  match a with
  | BinarySingleNaN.B754_finite _ m _ _ => Z.leb 4503599627370496 (Zpos m)
  | _ => false
  end.
Definition is_finiteb (a : F) : bool := BinarySingleNaN.is_finite a.
