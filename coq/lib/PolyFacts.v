(* Real-number facts about polynomials given by coefficient lists (lowest degree first). *)
From Coq Require Import Reals List Lra Lia.
From Coquelicot Require Import Coquelicot.
Import ListNotations.
Local Open Scope R_scope.

Fixpoint polyval (cs : list R) (x : R) : R :=
  match cs with [] => 0 | c :: r => c + x * polyval r x end.

(* sum_i |c_i| |x|^i *)
Definition polyabs (cs : list R) (x : R) : R := polyval (map Rabs cs) (Rabs x).

Lemma polyval_scale cs s x : polyval (map (fun c => c * s) cs) x = s * polyval cs x.
Proof. induction cs as [|c r IH]; cbn; [ring|]. rewrite IH. ring. Qed.
Lemma polyval_neg cs x : polyval (map Ropp cs) x = - polyval cs x.
Proof. induction cs as [|c r IH]; cbn; [ring|]. rewrite IH. ring. Qed.
Fixpoint zip_with (f : R -> R -> R) (a b : list R) : list R :=
  match a, b with x :: r, y :: s => f x y :: zip_with f r s | _, _ => [] end.
Lemma polyval_add a b x : length a = length b -> polyval (zip_with Rplus a b) x = polyval a x + polyval b x.
Proof.
  revert b. induction a as [|c r IH]; intros [|d s] H; try discriminate; cbn; [ring|].
  rewrite IH by (cbn in H; congruence). ring.
Qed.
Lemma polyval_sub a b x : length a = length b -> polyval (zip_with Rminus a b) x = polyval a x - polyval b x.
Proof.
  revert b. induction a as [|c r IH]; intros [|d s] H; try discriminate; cbn; [ring|].
  rewrite IH by (cbn in H; congruence). ring.
Qed.
Lemma polyval_translate c r v x : polyval ((c + v) :: r) x = polyval (c :: r) x + v.
Proof. cbn. ring. Qed.

(* formal derivative: [c1; 2 c2; 3 c3; ...] *)
Fixpoint deriv_from (k : nat) (cs : list R) : list R :=
  match cs with [] => [] | c :: r => INR k * c :: deriv_from (S k) r end.
Definition deriv_coeffs (cs : list R) : list R := match cs with [] => [] | _ :: r => deriv_from 1 r end.

Lemma polyval_app cs d x : polyval (cs ++ [d]) x = polyval cs x + d * x ^ length cs.
Proof. induction cs as [|c r IH]; cbn; [ring|]. rewrite IH. ring. Qed.

(* derivative computed structurally: p = c + x r  ==>  p' = r + x r' *)
Fixpoint dpoly (cs : list R) (x : R) : R :=
  match cs with [] => 0 | _ :: r => polyval r x + x * dpoly r x end.

Lemma derivable_polyval cs x : derivable_pt_lim (polyval cs) x (dpoly cs x).
Proof.
  induction cs as [|c r IH]; cbn [polyval dpoly].
  - apply derivable_pt_lim_const.
  - replace (polyval r x + x * dpoly r x) with (0 + (1 * polyval r x + x * dpoly r x)) by ring.
    apply (derivable_pt_lim_plus (fun _ => c) (fun t => t * polyval r t)); [apply derivable_pt_lim_const|].
    apply (derivable_pt_lim_mult (fun t => t) (polyval r)); [apply derivable_pt_lim_id|exact IH].
Qed.

Lemma deriv_from_dpoly k r x : polyval (deriv_from k r) x = INR k * polyval r x + x * dpoly r x.
Proof.
  revert k. induction r as [|c s IH]; intros k; cbn [deriv_from polyval dpoly]; [ring|].
  rewrite IH, S_INR. ring.
Qed.
Lemma dpoly_deriv_coeffs cs x : dpoly cs x = polyval (deriv_coeffs cs) x.
Proof. destruct cs as [|c r]; cbn [dpoly deriv_coeffs]; [reflexivity|]. rewrite deriv_from_dpoly. cbn. ring. Qed.

Lemma is_derive_polyval cs x : is_derive (polyval cs) x (polyval (deriv_coeffs cs) x).
Proof. apply is_derive_Reals. rewrite <- dpoly_deriv_coeffs. apply derivable_polyval. Qed.

(* antiderivative with zero constant term: [0; c0; c1/2; c2/3; ...] *)
Fixpoint antider_from (k : nat) (cs : list R) : list R :=
  match cs with [] => [] | c :: r => c / INR k :: antider_from (S k) r end.
Definition antider (cs : list R) : list R := 0 :: antider_from 1 cs.

Lemma deriv_antider_from k cs : (0 < k)%nat -> deriv_from k (antider_from k cs) = cs.
Proof.
  revert k. induction cs as [|c r IH]; intros k Hk; cbn; [reflexivity|].
  rewrite IH by lia. f_equal. field. apply not_0_INR. lia.
Qed.
Lemma deriv_antider cs : deriv_coeffs (antider cs) = cs.
Proof. unfold antider, deriv_coeffs. apply deriv_antider_from. lia. Qed.

Theorem is_derive_antider cs x : is_derive (polyval (antider cs)) x (polyval cs x).
Proof. rewrite <- (deriv_antider cs) at 2. apply is_derive_polyval. Qed.
Lemma antider_at_0 cs : polyval (antider cs) 0 = 0.
Proof. cbn. ring. Qed.

(* F(b) - F(a) is the integral of p over [a,b] *)
Lemma continuous_polyval cs x : continuous (polyval cs) x.
Proof. apply @ex_derive_continuous. eexists. apply is_derive_polyval. Qed.
Theorem is_RInt_polyval cs a b :
  is_RInt (polyval cs) a b (polyval (antider cs) b - polyval (antider cs) a).
Proof.
  apply (is_RInt_derive (polyval (antider cs)) (polyval cs)).
  - intros x _. apply is_derive_antider.
  - intros x _. apply continuous_polyval.
Qed.
(* any vertical translate of the antiderivative has the same differences *)
Theorem is_RInt_polyval_translate cs k a b :
  is_RInt (polyval cs) a b ((polyval (antider cs) b + k) - (polyval (antider cs) a + k)).
Proof. replace (_ - _) with (polyval (antider cs) b - polyval (antider cs) a) by ring. apply is_RInt_polyval. Qed.

(* ---- log-polynomials: the antiderivative of p(ln t) is t * q(ln t) with q_n = p_n, q_i = p_i - (i+1) q_{i+1} ---- *)
Fixpoint logq_from (k : nat) (ps : list R) : list R :=
  match ps with
  | [] => []
  | p :: r => let q := logq_from (S k) r in
              (p - INR k * match q with [] => 0 | q1 :: _ => q1 end) :: q
  end.
Definition logq (ps : list R) : list R := logq_from 1 ps.

(* q + q' = p  as polynomials in u = ln t *)
Lemma logq_from_spec k ps u : (0 < k)%nat ->
  polyval (logq_from k ps) u + polyval (deriv_from k (match logq_from k ps with [] => [] | _ :: r => r end)) u = polyval ps u.
Proof.
  revert k. induction ps as [|p r IH]; intros k Hk; cbn [logq_from]; [cbn; ring|].
  set (q := logq_from (S k) r) in *.
  cbn [polyval]. specialize (IH (S k) ltac:(lia)). fold q in IH.
  rewrite <- IH. destruct q as [|q1 qr] eqn:Eq; cbn [deriv_from polyval]; rewrite ?S_INR; ring.
Qed.

Theorem is_derive_logpoly ps t : 0 < t ->
  is_derive (fun v => v * polyval (logq ps) (ln v)) t (polyval ps (ln t)).
Proof.
  intros Ht. unfold logq. apply is_derive_Reals.
  set (q := logq_from 1 ps).
  assert (E : polyval ps (ln t) = 1 * polyval q (ln t) + t * (dpoly q (ln t) * / t)).
  { rewrite <- (logq_from_spec 1 ps (ln t)) by lia. fold q.
    rewrite dpoly_deriv_coeffs. unfold deriv_coeffs. clearbody q.
    assert (Hs : forall X, t * (X * / t) = X) by (intros X; rewrite <- Rmult_assoc, Rinv_r_simpl_m; lra).
    destruct q as [|q0 qr]; cbv beta iota; cbn [deriv_from]; rewrite Hs; ring. }
  rewrite E.
  apply (derivable_pt_lim_mult (fun v => v) (fun v => polyval q (ln v))); [apply derivable_pt_lim_id|].
  apply (derivable_pt_lim_comp ln (polyval q)); [apply derivable_pt_lim_ln; exact Ht|apply derivable_polyval].
Qed.

Lemma continuous_logpoly ps t : 0 < t -> continuous (fun v => polyval ps (ln v)) t.
Proof.
  intros Ht. apply continuous_comp; [|apply continuous_polyval].
  apply @ex_derive_continuous. exists (/ t). apply is_derive_Reals, derivable_pt_lim_ln, Ht.
Qed.
Theorem is_RInt_logpoly ps k a b : 0 < a -> 0 < b ->
  is_RInt (fun t => polyval ps (ln t)) a b
          ((k + b * polyval (logq ps) (ln b)) - (k + a * polyval (logq ps) (ln a))).
Proof.
  intros Ha Hb.
  replace (_ - _) with (b * polyval (logq ps) (ln b) - a * polyval (logq ps) (ln a)) by ring.
  apply (is_RInt_derive (fun v => v * polyval (logq ps) (ln v)) (fun t => polyval ps (ln t))).
  - intros x Hx. apply is_derive_logpoly.
    destruct (Rle_dec a b); [rewrite Rmin_left in Hx by assumption|rewrite Rmin_right in Hx by lra]; lra.
  - intros x Hx. apply continuous_logpoly.
    destruct (Rle_dec a b); [rewrite Rmin_left in Hx by assumption|rewrite Rmin_right in Hx by lra]; lra.
Qed.

(* ---- propagation of an argument error through a polynomial ---- *)
Lemma polyval_abs_nonneg cs M : 0 <= M -> 0 <= polyval (map Rabs cs) M.
Proof. intros HM. induction cs as [|c r IH]; cbn; [lra|]. assert (H := Rabs_pos c). nra. Qed.
Lemma polyval_abs_le cs a M : Rabs a <= M -> Rabs (polyval cs a) <= polyval (map Rabs cs) M.
Proof.
  intros Ha. assert (HM : 0 <= M) by (generalize (Rabs_pos a); lra).
  induction cs as [|c r IH]; cbn [polyval map]; [rewrite Rabs_R0; lra|].
  eapply Rle_trans; [apply Rabs_triang|]. rewrite Rabs_mult.
  assert (H1 := polyval_abs_nonneg r M HM). assert (H2 := Rabs_pos a). assert (H3 := Rabs_pos (polyval r a)).
  assert (Rabs a * Rabs (polyval r a) <= M * polyval (map Rabs r) M) by (apply Rmult_le_compat; assumption).
  lra.
Qed.
Lemma dpoly_abs_nonneg cs M : 0 <= M -> 0 <= dpoly (map Rabs cs) M.
Proof.
  intros HM. induction cs as [|c r IH]; cbn [dpoly map]; [lra|].
  assert (H := polyval_abs_nonneg r M HM). nra.
Qed.
Theorem polyval_lipschitz cs a b M : Rabs a <= M -> Rabs b <= M ->
  Rabs (polyval cs a - polyval cs b) <= Rabs (a - b) * dpoly (map Rabs cs) M.
Proof.
  intros Ha Hb. assert (HM : 0 <= M) by (generalize (Rabs_pos a); lra).
  induction cs as [|c r IH]; cbn [polyval dpoly map].
  - rewrite Rminus_diag_eq by reflexivity. rewrite Rabs_R0. lra.
  - replace (c + a * polyval r a - (c + b * polyval r b)) with ((a - b) * polyval r a + b * (polyval r a - polyval r b)) by ring.
    eapply Rle_trans; [apply Rabs_triang|]. rewrite !Rabs_mult.
    assert (H1 := polyval_abs_le r a M Ha). assert (H2 := Rabs_pos (a - b)). assert (H3 := Rabs_pos b).
    assert (H4 := dpoly_abs_nonneg r M HM). assert (H5 := Rabs_pos (polyval r a - polyval r b)).
    assert (Q1 : Rabs (a - b) * Rabs (polyval r a) <= Rabs (a - b) * polyval (map Rabs r) M) by (apply Rmult_le_compat_l; assumption).
    assert (Q2 : Rabs b * Rabs (polyval r a - polyval r b) <= M * (Rabs (a - b) * dpoly (map Rabs r) M)) by (apply Rmult_le_compat; assumption).
    lra.
Qed.
