(* Cubic Hermite facts behind the constrained (Kruger) spline: the Fritsch-Carlson monotonicity region. *)
From Coq Require Import Reals Lra Psatz List.
Require Import PP.PolyFacts.
Import ListNotations.
Local Open Scope R_scope.

(* normalised derivative of the Hermite cubic on [0,1]:  p'/s = alpha*(1-4t+3t^2) + beta*(3t^2-2t) + 6t(1-t) *)
Definition K (a b t : R) : R := a * (1 - 4 * t + 3 * t ^ 2) + b * (3 * t ^ 2 - 2 * t) + 6 * t * (1 - t).

(* bilinear in (a,b): corners (0,0),(3,0),(0,3),(3,3) give 6t(1-t), 3(1-t)^2, 3t^2, 3(1-2t)^2 *)
Lemma K_bilinear a b t :
  9 * K a b t = (3 - a) * (3 - b) * (6 * t * (1 - t)) + a * (3 - b) * (3 * (1 - t) ^ 2)
                + (3 - a) * b * (3 * t ^ 2) + a * b * (3 * (1 - 2 * t) ^ 2).
Proof. unfold K. ring. Qed.

Theorem K_nonneg a b t : 0 <= t <= 1 -> 0 <= a <= 3 -> 0 <= b <= 3 -> 0 <= K a b t.
Proof.
  intros Ht Ha Hb.
  assert (H9 := K_bilinear a b t).
  assert (C1 : 0 <= 6 * t * (1 - t)) by nra.
  assert (C2 : 0 <= 3 * (1 - t) ^ 2) by (assert (H := pow2_ge_0 (1 - t)); lra).
  assert (C3 : 0 <= 3 * t ^ 2) by (assert (H := pow2_ge_0 t); lra).
  assert (C4 : 0 <= 3 * (1 - 2 * t) ^ 2) by (assert (H := pow2_ge_0 (1 - 2 * t)); lra).
  assert (P1 : 0 <= (3 - a) * (3 - b) * (6 * t * (1 - t))) by (apply Rmult_le_pos; [apply Rmult_le_pos; lra|exact C1]).
  assert (P2 : 0 <= a * (3 - b) * (3 * (1 - t) ^ 2)) by (apply Rmult_le_pos; [apply Rmult_le_pos; lra|exact C2]).
  assert (P3 : 0 <= (3 - a) * b * (3 * t ^ 2)) by (apply Rmult_le_pos; [apply Rmult_le_pos; lra|exact C3]).
  assert (P4 : 0 <= a * b * (3 * (1 - 2 * t) ^ 2)) by (apply Rmult_le_pos; [apply Rmult_le_pos; lra|exact C4]).
  lra.
Qed.

(* a function with non-negative derivative on [x0,x1] is non-decreasing there *)
Lemma nondecreasing_of_derivative (f f' : R -> R) (x0 x1 : R) :
  (forall x, x0 <= x <= x1 -> derivable_pt_lim f x (f' x)) ->
  (forall x, x0 <= x <= x1 -> 0 <= f' x) ->
  forall a b, x0 <= a -> a <= b -> b <= x1 -> f a <= f b.
Proof.
  intros Hd Hp a b Ha Hab Hb.
  destruct (Req_dec a b) as [->|Hne]; [lra|]. assert (Hlt : a < b) by lra.
  destruct (MVT_cor2 f f' a b Hlt) as (c & Hc & Hin).
  - intros x Hx. apply Hd. lra.
  - assert (0 <= f' c) by (apply Hp; lra). nra.
Qed.
