(* Facts about the binary64 operations used by the shape theorems (C14/C15/C08) and by the
   error analysis: commutativity, negation as multiplication by -1, the standard model. *)
From Coq Require Import ZArith Reals Lra Bool Psatz.
From Flocq Require Import Core Relative BinarySingleNaN.
Require Import PP.FloatModel.
Local Open Scope R_scope.

Notation fexp64 := (SpecFloat.fexp prec emax).
Definition rnd (r : R) : R := round radix2 fexp64 (round_mode mode_NE) r.

Lemma fin_notnan (z : F) : is_finite z = true -> is_nan z = false.
Proof. destruct z; try discriminate; reflexivity. Qed.

Lemma fmul_comm x y : fmul x y = fmul y x.
Proof.
  unfold fmul.
  destruct x as [sx|sx| |sx mx ex Hx], y as [sy|sy| |sy my ey Hy];
    try (destruct sx; destruct sy; reflexivity); try (destruct sx; reflexivity); try (destruct sy; reflexivity); try reflexivity.
  generalize (Bmult_correct prec emax _ _ mode_NE (B754_finite sx mx ex Hx) (B754_finite sy my ey Hy)).
  generalize (Bmult_correct prec emax _ _ mode_NE (B754_finite sy my ey Hy) (B754_finite sx mx ex Hx)).
  rewrite (Rmult_comm (B2R (B754_finite sy my ey Hy))), (xorb_comm (Bsign (B754_finite sy my ey Hy))).
  destruct (Rlt_bool _ _).
  - intros (R1 & F1 & S1) (R2 & F2 & S2). cbn [is_finite andb] in F1, F2.
    apply B2R_Bsign_inj; try assumption; [congruence|].
    rewrite (S1 (fin_notnan _ F1)), (S2 (fin_notnan _ F2)). reflexivity.
  - intros H1 H2. apply B2SF_inj. congruence.
Qed.

Lemma fadd_comm x y : fadd x y = fadd y x.
Proof.
  unfold fadd.
  destruct x as [sx|sx| |sx mx ex Hx], y as [sy|sy| |sy my ey Hy];
    try (destruct sx; destruct sy; reflexivity); try (destruct sx; reflexivity); try (destruct sy; reflexivity); try reflexivity.
  generalize (Bplus_correct prec emax _ _ mode_NE (B754_finite sx mx ex Hx) (B754_finite sy my ey Hy) eq_refl eq_refl).
  generalize (Bplus_correct prec emax _ _ mode_NE (B754_finite sy my ey Hy) (B754_finite sx mx ex Hx) eq_refl eq_refl).
  rewrite (Rplus_comm (B2R (B754_finite sy my ey Hy))), (andb_comm (Bsign (B754_finite sy my ey Hy))).
  destruct (Rlt_bool _ _).
  - intros (R1 & F1 & S1) (R2 & F2 & S2).
    apply B2R_Bsign_inj; try assumption; congruence.
  - intros (H1 & E1) (H2 & E2). apply B2SF_inj. congruence.
Qed.

(* ---- multiplication by -1.0 is negation, for every operand ---- *)
Definition f_m1 : F := of_bits 13830554455654793216.     (* -1.0 *)
Lemma B2R_m1 : B2R f_m1 = -1.
Proof.
  unfold f_m1, of_bits. cbn -[bpow]. unfold F2R. cbn [Fnum Fexp cond_Zopp Z.opp]. cbn [bpow].
  change (Z.pow_pos radix2 52) with 4503599627370496%Z. lra.
Qed.

Lemma fmul_m1 c : fmul c f_m1 = fneg c.
Proof.
  unfold fmul, fneg.
  destruct c as [s|s| |s m e B]; try (destruct s; vm_compute; reflexivity); try reflexivity.
  set (c := B754_finite s m e B).
  assert (Hr : B2R c * B2R f_m1 = - B2R c) by (rewrite B2R_m1; ring).
  generalize (Bmult_correct prec emax _ _ mode_NE c f_m1). rewrite Hr.
  assert (Hg : round radix2 fexp64 (round_mode mode_NE) (- B2R c) = - B2R c).
  { apply round_generic; [apply valid_rnd_N|]. apply generic_format_opp. apply generic_format_B2R. }
  rewrite Hg. rewrite Rabs_Ropp. rewrite (Rlt_bool_true _ _ (abs_B2R_lt_emax _ _ c)).
  intros (R1 & F1 & S1).
  assert (Fin : is_finite (Bmult mode_NE c f_m1) = true) by (rewrite F1; reflexivity).
  apply B2R_Bsign_inj.
  - exact Fin.
  - rewrite is_finite_Bopp. reflexivity.
  - rewrite R1, B2R_Bopp. reflexivity.
  - rewrite (S1 (fin_notnan _ Fin)). unfold c. cbn. destruct s; reflexivity.
Qed.

(* ---- the standard model of binary64 arithmetic (no underflow, no overflow) ---- *)
Definition u : R := / 2 * bpow radix2 (- prec + 1).        (* 2^-53 *)
Definition tiny : R := bpow radix2 (-1022).
Definition nounder (r : R) : Prop := r = 0 \/ tiny <= Rabs r.
Definition noover (r : R) : Prop := Rabs (rnd r) < bpow radix2 emax.

Lemma u_pos : 0 < u.
Proof. unfold u. assert (0 < bpow radix2 (-prec+1)) by apply bpow_gt_0. lra. Qed.

Lemma rnd_model r : nounder r -> exists d, Rabs d <= u /\ rnd r = r * (1 + d).
Proof.
  intros [->|H].
  - exists 0. split; [rewrite Rabs_R0; generalize u_pos; lra|].
    unfold rnd. rewrite round_0; [ring|]. apply valid_rnd_N.
  - unfold rnd, u, SpecFloat.fexp, SpecFloat.emin.
    apply (relative_error_N_FLT_ex radix2 (3 - emax - prec) prec Hprec (fun x => negb (Z.even x))).
    exact H.
Qed.
Lemma rnd_exact r : generic_format radix2 fexp64 r -> rnd r = r.
Proof. intros H. unfold rnd. apply round_generic; [apply valid_rnd_N|exact H]. Qed.

Section Models.
Variables x y z : F.
Hypothesis Fx : is_finite x = true.
Hypothesis Fy : is_finite y = true.

Lemma add_correct : noover (B2R x + B2R y) ->
  B2R (fadd x y) = rnd (B2R x + B2R y) /\ is_finite (fadd x y) = true.
Proof.
  intros Ho. generalize (Bplus_correct prec emax _ _ mode_NE x y Fx Fy).
  unfold noover, rnd in Ho. rewrite (Rlt_bool_true _ _ Ho). intros (E & Fin & _). split; assumption.
Qed.
Lemma sub_correct : noover (B2R x - B2R y) ->
  B2R (fsub x y) = rnd (B2R x - B2R y) /\ is_finite (fsub x y) = true.
Proof.
  intros Ho. generalize (Bminus_correct prec emax _ _ mode_NE x y Fx Fy).
  unfold noover, rnd in Ho. rewrite (Rlt_bool_true _ _ Ho). intros (E & Fin & _). split; assumption.
Qed.
Lemma mul_correct : noover (B2R x * B2R y) ->
  B2R (fmul x y) = rnd (B2R x * B2R y) /\ is_finite (fmul x y) = true.
Proof.
  intros Ho. generalize (Bmult_correct prec emax _ _ mode_NE x y).
  unfold noover, rnd in Ho. rewrite (Rlt_bool_true _ _ Ho). intros (E & Fin & _).
  split; [exact E|]. unfold fmul. rewrite Fin, Fx, Fy. reflexivity.
Qed.
Lemma div_correct : B2R y <> 0 -> noover (B2R x / B2R y) ->
  B2R (fdiv x y) = rnd (B2R x / B2R y) /\ is_finite (fdiv x y) = true.
Proof.
  intros Hy Ho. generalize (Bdiv_correct prec emax _ _ mode_NE x y Hy).
  unfold noover, rnd in Ho. rewrite (Rlt_bool_true _ _ Ho). intros (E & Fin & _).
  split; [exact E|]. unfold fdiv. rewrite Fin. exact Fx.
Qed.
Hypothesis Fz : is_finite z = true.
Lemma fma_correct : noover (B2R x * B2R y + B2R z) ->
  B2R (ffma x y z) = rnd (B2R x * B2R y + B2R z) /\ is_finite (ffma x y z) = true.
Proof.
  intros Ho. generalize (Bfma_correct prec emax _ _ mode_NE x y z Fx Fy Fz). cbv zeta.
  unfold noover, rnd in Ho. rewrite (Rlt_bool_true _ _ Ho). intros (E & Fin & _). split; assumption.
Qed.
End Models.

Lemma neg_correct x : B2R (fneg x) = - B2R x /\ is_finite (fneg x) = is_finite x.
Proof. unfold fneg. split; [apply B2R_Bopp|apply is_finite_Bopp]. Qed.
