(* Facts about the binary64 operations used by the shape theorems (C14/C15/C08) and by the
   error analysis: commutativity, negation as multiplication by -1, the standard model. *)
From Coq Require Import ZArith Reals Lra Bool Psatz.
From Flocq Require Import Core Relative BinarySingleNaN.
Require Import PP.FloatModel.
Local Open Scope R_scope.

Notation fexp64 := (SpecFloat.fexp prec emax).
Definition rnd (r : R) : R := round radix2 fexp64 (round_mode mode_NE) r.

Lemma fin_notnan (z : F) : is_finite z = true -> is_nan z = false.
Proof. destruct z; try discriminate; reflexivity. Qed.

Lemma fmul_comm x y : fmul x y = fmul y x.
Proof.
  unfold fmul.
  destruct x as [sx|sx| |sx mx ex Hx], y as [sy|sy| |sy my ey Hy];
    try (destruct sx; destruct sy; reflexivity); try (destruct sx; reflexivity); try (destruct sy; reflexivity); try reflexivity.
  generalize (Bmult_correct prec emax _ _ mode_NE (B754_finite sx mx ex Hx) (B754_finite sy my ey Hy)).
  generalize (Bmult_correct prec emax _ _ mode_NE (B754_finite sy my ey Hy) (B754_finite sx mx ex Hx)).
  rewrite (Rmult_comm (B2R (B754_finite sy my ey Hy))), (xorb_comm (Bsign (B754_finite sy my ey Hy))).
  destruct (Rlt_bool _ _).
  - intros (R1 & F1 & S1) (R2 & F2 & S2). cbn [is_finite andb] in F1, F2.
    apply B2R_Bsign_inj; try assumption; [congruence|].
    rewrite (S1 (fin_notnan _ F1)), (S2 (fin_notnan _ F2)). reflexivity.
  - intros H1 H2. apply B2SF_inj. congruence.
Qed.

Lemma fadd_comm x y : fadd x y = fadd y x.
Proof.
  unfold fadd.
  destruct x as [sx|sx| |sx mx ex Hx], y as [sy|sy| |sy my ey Hy];
    try (destruct sx; destruct sy; reflexivity); try (destruct sx; reflexivity); try (destruct sy; reflexivity); try reflexivity.
  generalize (Bplus_correct prec emax _ _ mode_NE (B754_finite sx mx ex Hx) (B754_finite sy my ey Hy) eq_refl eq_refl).
  generalize (Bplus_correct prec emax _ _ mode_NE (B754_finite sy my ey Hy) (B754_finite sx mx ex Hx) eq_refl eq_refl).
  rewrite (Rplus_comm (B2R (B754_finite sy my ey Hy))), (andb_comm (Bsign (B754_finite sy my ey Hy))).
  destruct (Rlt_bool _ _).
  - intros (R1 & F1 & S1) (R2 & F2 & S2).
    apply B2R_Bsign_inj; try assumption; congruence.
  - intros (H1 & E1) (H2 & E2). apply B2SF_inj. congruence.
Qed.

(* ---- multiplication by -1.0 is negation, for every operand ---- *)
Definition f_m1 : F := of_bits 13830554455654793216.     (* -1.0 *)
Lemma B2R_m1 : B2R f_m1 = -1.
Proof.
  unfold f_m1, of_bits. cbn -[bpow]. unfold F2R. cbn [Fnum Fexp cond_Zopp Z.opp]. cbn [bpow].
  change (Z.pow_pos radix2 52) with 4503599627370496%Z. lra.
Qed.

Lemma fmul_m1 c : fmul c f_m1 = fneg c.
Proof.
  unfold fmul, fneg.
  destruct c as [s|s| |s m e B]; try (destruct s; vm_compute; reflexivity); try reflexivity.
  set (c := B754_finite s m e B).
  assert (Hr : B2R c * B2R f_m1 = - B2R c) by (rewrite B2R_m1; ring).
  generalize (Bmult_correct prec emax _ _ mode_NE c f_m1). rewrite Hr.
  assert (Hg : round radix2 fexp64 (round_mode mode_NE) (- B2R c) = - B2R c).
  { apply round_generic; [apply valid_rnd_N|]. apply generic_format_opp. apply generic_format_B2R. }
  rewrite Hg. rewrite Rabs_Ropp. rewrite (Rlt_bool_true _ _ (abs_B2R_lt_emax _ _ c)).
  intros (R1 & F1 & S1).
  assert (Fin : is_finite (Bmult mode_NE c f_m1) = true) by (rewrite F1; reflexivity).
  apply B2R_Bsign_inj.
  - exact Fin.
  - rewrite is_finite_Bopp. reflexivity.
  - rewrite R1, B2R_Bopp. reflexivity.
  - rewrite (S1 (fin_notnan _ Fin)). unfold c. cbn. destruct s; reflexivity.
Qed.
