(* Executable decision of the hypotheses of the binary64 error theorems on concrete kernel inputs (see lib/SafeDec.v):
   used by the correspondence run to report on how many generated inputs those theorems apply, and by the non-vacuity
   examples in the property files. *)
From Coq Require Import ZArith QArith Qabs List Bool.
Require Import PP.FloatModel PP.Expr PP.FloatOps PP.ErrorBound PP.ErrorRun PP.SafeDec.
Import ListNotations.
Local Open Scope Z_scope.

Definition b2zh (b : bool) : Z := if b then 1 else 0.
(* every output expression of the kernel satisfies safe_run / safe on these arguments (bit patterns) *)
Definition hyp_safe_run (k : list expr) (args : list Z) : list Z :=
  [b2zh (forallb (fun e => rok (srun (map of_bits args) e)) k)].
Definition hyp_safe (k : list expr) (args : list Z) : list Z :=
  [b2zh (forallb (fun e => snd (safe1 (map of_bits args) e)) k)].
(* in addition: the exact deviation of every output from its exact-arithmetic value is within the proved bound err_run
   (a sanity check of the theorem's instance, computed in rational arithmetic) *)
Definition hyp_safe_run_dev (k : list expr) (args : list Z) : list Z :=
  let env := map of_bits args in
  [b2zh (forallb (fun e => rok (srun env e)) k);
   b2zh (forallb (fun e => let r := srun env e in Qle_bool (Qabs (F2Q (rv r) - eval QOps (qenv env) e)) (re r)) k)].
