(* C18: the serde data-model shapes the derives produce, and the concrete borsh byte codec. Definitions only. *)
From Coq Require Import ZArith List Bool.
Import ListNotations.
Local Open Scope Z_scope.

(* values: a number (f64 by bit pattern), or a cons-list of values (tuple / struct fields / sequence items) *)
Inductive val := VF (bits : Z) | VNil | VCons (h t : val).

Inductive shape :=
 | SF64
 | SNewtype (name : Z) (s : shape)            (* Poly3(..), Log(..) *)
 | STuple (n : nat)                           (* [f64; n] *)
 | SStruct (name : Z) (fs : fields)           (* Knot, IntOfLog, IntOfLogPoly4, Segment, Piecewise *)
 | SSeq (s : shape)                           (* Vec<Segment<T>> *)
with fields := FNil | FCons (id : Z) (s : shape) (r : fields).

Fixpoint nfields (fs : fields) : Z := match fs with FNil => 0 | FCons _ _ r => 1 + nfields r end.
Fixpoint vlen (v : val) : Z := match v with VCons _ t => 1 + vlen t | _ => 0 end.

(* ---- serde: the token stream a recording Serializer sees ---- *)
Fixpoint ser_list (f : val -> list Z) (v : val) : list Z :=
  match v with VCons h t => f h ++ ser_list f t | _ => [] end.
Fixpoint ser (s : shape) (v : val) {struct s} : list Z :=
  match s with
  | SF64 => match v with VF b => [1; b] | _ => [-1] end
  | SNewtype nm s' => [10; nm] ++ ser s' v
  | STuple n => [11; Z.of_nat n] ++ ser_list (fun x => match x with VF b => [1; b] | _ => [-1] end) v
  | SStruct nm fs => [12; nm; nfields fs] ++ ser_fields fs v
  | SSeq s' => [14; vlen v] ++ ser_list (ser s') v
  end
with ser_fields (fs : fields) (v : val) {struct fs} : list Z :=
  match fs, v with
  | FNil, _ => []
  | FCons id s r, VCons h t => [13; id] ++ ser s h ++ ser_fields r t
  | FCons _ _ _, _ => [-1]
  end.

(* ---- borsh ---- *)
Fixpoint le_bytes (n : nat) (z : Z) : list Z :=
  match n with O => [] | S m => (z mod 256) :: le_bytes m (z / 256) end.
Definition le_int (l : list Z) : Z := fold_right (fun b acc => b + 256 * acc) 0 l.

Fixpoint enc_list (f : val -> list Z) (v : val) : list Z :=
  match v with VCons h t => f h ++ enc_list f t | _ => [] end.
Fixpoint enc (s : shape) (v : val) {struct s} : list Z :=
  match s with
  | SF64 => match v with VF b => le_bytes 8 b | _ => [] end
  | SNewtype _ s' => enc s' v
  | STuple _ => enc_list (fun x => match x with VF b => le_bytes 8 b | _ => [] end) v
  | SStruct _ fs => enc_fields fs v
  | SSeq s' => le_bytes 4 (vlen v) ++ enc_list (enc s') v
  end
with enc_fields (fs : fields) (v : val) {struct fs} : list Z :=
  match fs, v with
  | FCons _ s r, VCons h t => enc s h ++ enc_fields r t
  | _, _ => []
  end.

Definition take_bytes (n : nat) (bs : list Z) : option (list Z * list Z) :=
  if Nat.leb n (length bs) then Some (firstn n bs, skipn n bs) else None.
Definition dec_f64 (bs : list Z) : option (val * list Z) :=
  match take_bytes 8 bs with Some (b, r) => Some (VF (le_int b), r) | None => None end.
Fixpoint dec_n (f : list Z -> option (val * list Z)) (n : nat) (bs : list Z) : option (val * list Z) :=
  match n with
  | O => Some (VNil, bs)
  | S m => match f bs with
           | None => None
           | Some (h, r) => match dec_n f m r with None => None | Some (t, r') => Some (VCons h t, r') end
           end
  end.
Fixpoint dec (s : shape) (bs : list Z) {struct s} : option (val * list Z) :=
  match s with
  | SF64 => dec_f64 bs
  | SNewtype _ s' => dec s' bs
  | STuple n => dec_n dec_f64 n bs
  | SStruct _ fs => dec_fields fs bs
  | SSeq s' => match take_bytes 4 bs with
               | None => None
               | Some (lb, r) => dec_n (dec s') (Z.to_nat (le_int lb)) r
               end
  end
with dec_fields (fs : fields) (bs : list Z) {struct fs} : option (val * list Z) :=
  match fs with
  | FNil => Some (VNil, bs)
  | FCons _ s r => match dec s bs with
                   | None => None
                   | Some (h, bs') => match dec_fields r bs' with None => None | Some (t, bs'') => Some (VCons h t, bs'') end
                   end
  end.

(* well-shaped values *)
Fixpoint wf_tuple (n : nat) (v : val) : Prop :=
  match n, v with
  | O, VNil => True
  | S m, VCons (VF b) t => 0 <= b < 2 ^ 64 /\ wf_tuple m t
  | _, _ => False
  end.
Fixpoint wf_seq (f : val -> Prop) (v : val) : Prop :=
  match v with VNil => True | VCons h t => f h /\ wf_seq f t | VF _ => False end.
Fixpoint wf (s : shape) (v : val) {struct s} : Prop :=
  match s with
  | SF64 => match v with VF b => 0 <= b < 2 ^ 64 | _ => False end
  | SNewtype _ s' => wf s' v
  | STuple n => wf_tuple n v
  | SStruct _ fs => wf_fields fs v
  | SSeq s' => wf_seq (wf s') v /\ vlen v < 2 ^ 32
  end
with wf_fields (fs : fields) (v : val) {struct fs} : Prop :=
  match fs, v with
  | FNil, VNil => True
  | FCons _ s r, VCons h t => wf s h /\ wf_fields r t
  | _, _ => False
  end.

(* ---- the shapes of the crate's types (ids: names 1 Knot, 10+K PolyK, 20 Log, 21 IntOfLog, 22 IntOfLogPoly4,
        23 Segment, 24 Piecewise; fields 1 x, 2 y, 3 k, 4 poly, 5 coeffs, 6 u, 7 end, 8 segments) ---- *)
Definition sh_knot := SStruct 1 (FCons 1 SF64 (FCons 2 SF64 FNil)).
Definition sh_poly (k : nat) := match k with O => SNewtype 10 SF64 | _ => SNewtype (10 + Z.of_nat k) (STuple (S k)) end.
Definition sh_log (p : shape) := SNewtype 20 p.
Definition sh_intoflog (p : shape) := SStruct 21 (FCons 3 SF64 (FCons 4 p FNil)).
Definition sh_q4 := SStruct 22 (FCons 3 SF64 (FCons 5 (STuple 4) (FCons 6 SF64 FNil))).
Definition sh_segment (p : shape) := SStruct 23 (FCons 7 SF64 (FCons 4 p FNil)).
Definition sh_piecewise (p : shape) := SStruct 24 (FCons 8 (SSeq (sh_segment p)) FNil).
