(* Hand-written skeleton: the control-flow code of piecewise.rs, linear.rs, spline.rs and
   PolyN, transcribed as total Gallina functions.  `None` stands for a Rust panic.
   Definitions only - the proofs live in proofs/, so the model still runs when a proof breaks.
   Everything is parametric in the carrier A of breakpoints/arguments and the piece type P,
   exactly as the Rust is generic in T. *)
From Coq Require Import List Bool Arith.
Import ListNotations.
Set Implicit Arguments.

Section Pw.
Variables (A P : Type).
Variables (lt le : A -> A -> bool) (isnan : A -> bool) (cmp : A -> A -> option comparison).

Definition seg := (A * P)%type.
Definition send (s : seg) : A := fst s.
Definition spoly (s : seg) : P := snd s.

Fixpoint last_opt (l : list seg) : option seg :=
  match l with [] => None | [a] => Some a | _ :: r => last_opt r end.

(* Piecewise::evaluate (piecewise.rs): position(|seg| seg.end > x), else last; assert non-empty *)
Definition select (segs : list seg) (x : A) : option seg :=
  match find (fun s => lt x (send s)) segs with Some s => Some s | None => last_opt segs end.

(* value returned by Piecewise::evaluate; None = the assert!(!is_empty) panic *)
Definition pw_eval (R : Type) (ev : seg -> A -> R) (segs : list seg) (x : A) : option R :=
  match segs with
  | [] => None
  | _ => option_map (fun s => ev s x) (select segs x)
  end.

(* ---- PiecewiseEvaluator ---- *)
Record st := { tail : list seg; lastx : A }.

Fixpoint split_last (l : list seg) : option (list seg * seg) :=
  match l with
  | [] => None
  | [a] => Some ([], a)
  | a :: r => match split_last r with Some (f, z) => Some (a :: f, z) | None => None end
  end.

Fixpoint dropwhile (p : seg -> bool) (l : list seg) :=
  match l with [] => [] | a :: r => if p a then dropwhile p r else l end.
(* index of the LAST element satisfying p  (iter().enumerate().rev().find_map) *)
Fixpoint rfind_idx (p : seg -> bool) (l : list seg) : option nat :=
  match l with
  | [] => None
  | a :: r => match rfind_idx p r with
              | Some i => Some (S i)
              | None => if p a then Some 0 else None
              end
  end.
Definition hd_or (d : seg) (l : list seg) := match l with [] => d | a :: _ => a end.

Definition init (front : list seg) (last : seg) : st :=
  {| tail := front; lastx := match front with [] => send last | a :: _ => send a end |}.

(* PiecewiseEvaluator::evaluate: returns the chosen segment and the new state *)
Definition step (front : list seg) (last : seg) (s : st) (x : A) : seg * st :=
  if isnan x then (last, s)
  else if le (lastx s) x then
    let t' := dropwhile (fun g => negb (lt x (send g))) (tail s) in
    (hd_or last t', {| tail := t'; lastx := x |})
  else
    let in_front := firstn (length front - length (tail s)) front in
    let t' := match rfind_idx (fun g => le (send g) x) in_front with
              | Some ix => skipn (ix + 1) front
              | None => front
              end in
    (hd_or last t', {| tail := t'; lastx := x |}).

Fixpoint run (front : list seg) (last : seg) (s : st) (xs : list A) : list (seg * st) :=
  match xs with
  | [] => []
  | x :: r => let '(g, s') := step front last s x in (g, s') :: run front last s' r
  end.

(* PiecewiseEvaluator::new followed by a sequence of evaluate calls: the answers.
   None = the `expect("no segments to pick from")` panic of `new`. *)
Definition evaluator_answers (R : Type) (ev : seg -> A -> R) (segs : list seg) (xs : list A) : option (list R) :=
  match split_last segs with
  | None => None
  | Some (front, last) =>
      Some (map (fun xr => ev (fst (snd xr)) (fst xr)) (combine xs (run front last (init front last) xs)))
  end.

(* ---- evaluate_v ---- *)
Fixpoint find_index (p : seg -> bool) (l : list seg) : option nat :=
  match l with
  | [] => None
  | a :: r => if p a then Some 0 else option_map S (find_index p r)
  end.
Definition ev_v_step (segs : list seg) (prev : nat) (x : A) : option (nat * seg) :=
  let prev' := match find_index (fun s => lt x (send s)) (skipn prev segs) with
               | Some i => i + prev
               | None => length segs - 1
               end in
  match nth_error segs prev' with Some s => Some (prev', s) | None => None end.
Fixpoint ev_v_run (segs : list seg) (prev : nat) (xs : list A) : option (list (A * seg)) :=
  match xs with
  | [] => Some []
  | x :: r => match ev_v_step segs prev x with
              | None => None
              | Some (p', s) => option_map (cons (x, s)) (ev_v_run segs p' r)
              end
  end.
Definition ev_v (segs : list seg) (xs : list A) : option (list (A * seg)) :=
  match segs with [] => None | _ => ev_v_run segs 0 xs end.

(* the values evaluate_v yields (it calls poly.evaluate on the chosen segment's piece) *)
Definition ev_v_answers (R : Type) (evp : P -> A -> R) (segs : list seg) (xs : list A) : option (list R) :=
  option_map (map (fun p => evp (spoly (snd p)) (fst p))) (ev_v segs xs).

(* ---- &f + &g / &f - &g : the two-cursor merge (one transcription, instantiated twice) ---- *)
Variable op : P -> P -> P.
Fixpoint loop (fuel : nat) (f g : list seg) (i j : nat) (acc : list seg) : option (list seg) :=
  match fuel with
  | 0 => None
  | S fuel' =>
    match nth_error f i, nth_error g j with
    | Some a, Some b =>
      let i_max := length f - 1 in
      let j_max := length g - 1 in
      let a_last := i_max <=? i in
      let b_last := j_max <=? j in
      match cmp (send a) (send b) with
      | None => None                       (* partial_cmp(..).unwrap() on NaN *)
      | Some c =>
        let '(i', j', e) :=
          match c with
          | Lt => if a_last then (i, j + 1, send b) else (i + 1, j, send a)
          | Gt => if b_last then (i + 1, j, send a) else (i, j + 1, send b)
          | Eq => (Nat.min i_max (i + 1), Nat.min j_max (j + 1), send a)
          end in
        let acc' := acc ++ [(e, op (spoly a) (spoly b))] in
        if a_last && b_last then Some acc' else loop fuel' f g i' j' acc'
      end
    | _, _ => None                         (* index out of bounds *)
    end
  end.
(* `len() - 1` on an empty operand underflows (panic in debug, wrap then OOB index in release) *)
Definition merge (f g : list seg) : option (list seg) :=
  match f, g with
  | [], _ | _, [] => None
  | _, _ => loop (length f + length g) f g 0 0 []
  end.
End Pw.

(* ---- integration: Segment::integral_iter(_ref), Piecewise::integral / indefinite ---- *)
Section Integ.
Variables (A P PI : Type).
Variable seg_integral : (A * P) -> (A * A) -> (A * PI).   (* Segment<T>::integral(knot) *)
Variable seg_indef : (A * P) -> (A * PI).                 (* Segment<T>::indefinite() *)
Variable evI : (A * PI) -> A -> A.                        (* Segment<IntegralOf>::evaluate *)
Fixpoint integral_iter (segs : list (A * P)) (knot : A * A) : list (A * PI) :=
  match segs with
  | [] => []
  | s :: r => let i := seg_integral s knot in
              i :: integral_iter r (fst i, evI i (fst i))
  end.
Definition pw_integral (segs : list (A * P)) (knot0 : A * A) := integral_iter segs knot0.
Definition pw_indefinite (segs : list (A * P)) : list (A * PI) :=
  match segs with
  | [] => []
  | s0 :: r => let i0 := seg_indef s0 in
               i0 :: integral_iter r (fst i0, evI i0 (fst i0))
  end.
End Integ.

(* ---- linear() and constrained_spline(): iterator plumbing around generated kernels ---- *)
Section Builders.
Variable A : Type.
Definition knot := (A * A)%type.
Variable S1 : Type.                                       (* Segment<Poly1> *)
Variable incr_linear : knot -> knot -> (S1 * knot).       (* returns segment and updated prev_knot *)
Fixpoint linear_go (prev : knot) (ks : list knot) : list S1 :=
  match ks with
  | [] => []
  | k :: r => let '(s, prev') := incr_linear prev k in s :: linear_go prev' r
  end.
Definition linear (ks : list knot) : option (list S1) :=
  match ks with
  | k0 :: ((_ :: _) as rest) => Some (linear_go k0 rest)
  | _ => None                                             (* assert!(knots.len() >= 2) *)
  end.

Variable S3 : Type.                                       (* Segment<Poly3> *)
Variable f_dx : knot -> knot -> knot -> A.
Variable f_end0 : A -> A -> A -> A -> A -> A.             (* (y1, y0, x1, x0, f_x1) *)
Variable f_endn : A -> A -> A -> A -> A -> A.             (* (yn, ym, xn, xm, f_xm) *)
Variable segment3 : A -> knot -> A -> knot -> S3.
Fixpoint f_mid (ks : list knot) : list A :=
  match ks with
  | k0 :: ((k1 :: k2 :: _) as r) => f_dx k0 k1 k2 :: f_mid r
  | _ => []
  end.
Fixpoint zip_segments (fs : list A) (ks : list knot) : list S3 :=
  match fs, ks with
  | f0 :: ((f1 :: _) as fr), k0 :: ((k1 :: _) as kr) => segment3 f0 k0 f1 k1 :: zip_segments fr kr
  | _, _ => []
  end.
Definition constrained_spline (ks : list knot) : option (list S3) :=
  match ks with
  | k0 :: k1 :: _ :: _ =>
      let fm := f_mid ks in                        (* f' at x1 .. xm; non-empty here *)
      let kn := last ks k0 in                      (* ks0n.last() *)
      let km := last (removelast ks) k0 in         (* ks0m.last() *)
      let f_x1 := hd (fst k0) fm in                (* f_mid[0]; default never used *)
      let f_xm := last fm (fst k0) in              (* f_mid.last() *)
      let f_x0 := f_end0 (snd k1) (snd k0) (fst k1) (fst k0) f_x1 in
      let f_xn := f_endn (snd kn) (snd km) (fst kn) (fst km) f_xm in
      Some (zip_segments (f_x0 :: fm ++ [f_xn]) ks)
  | _ => None                                      (* assert!(ks0n.len() >= 3) *)
  end.
End Builders.

(* ---- PolyN ---- *)
Section PolyN.
Variable A : Type.
Variables (zero : A) (add : A -> A -> A).
Variable fma3 : A -> A -> A -> A.
Definition polyn_eval (cs : list A) (x : A) : A :=
  match rev cs with
  | [] => zero
  | first :: rest => fold_left (fun acc e => fma3 acc x e) rest first
  end.
Definition polyn_translate (cs : list A) (v : A) : list A :=
  match cs with
  | [] => [v]
  | c0 :: r => add c0 v :: r
  end.
End PolyN.
