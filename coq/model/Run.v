(* Executable instantiation of the skeleton with the binary64 carrier and generated kernels;
   used by the correspondence check: inputs and outputs are Z bit patterns.  -1 = panic. *)
From Coq Require Import ZArith List Bool.
Require Import PP.FloatModel PP.Expr PP.FloatOps PP.Model.PwModel PP.Model.Wire.
Import ListNotations.
Local Open Scope Z_scope.

Definition PANIC : list Z := [-1].

Section R.
Variables (lnT expT : list (Z * Z)).
Let O := FOps lnT expT.

Definition piece := list F.
Definition fseg := (F * piece)%type.

Definition mkseg (zs : list Z) : fseg :=
  match zs with [] => (fnan, []) | e :: p => (of_bits e, map of_bits p) end.
Definition mksegs (zss : list (list Z)) : list fseg := map mkseg zss.
Definition seg_nums (s : fseg) : list F := fst s :: snd s.
Definition dump_segs (l : list fseg) : list Z :=
  Z.of_nat (length l) :: flat_map (fun s => map to_bits (seg_nums s)) l.
Definition seg_of_nums (l : list F) : fseg :=
  match l with [] => (fnan, []) | e :: p => (e, p) end.

(* apply a kernel to numbers *)
Definition kap (k : list expr) (args : list F) : list F := evals O args k.
Definition kap1 (k : list expr) (args : list F) : F := hd fnan (kap k args).

(* Segment<T>::evaluate kernel applied to a segment *)
Definition seg_ev (k : list expr) (s : fseg) (x : F) : F := kap1 k (seg_nums s ++ [x]).
(* T::evaluate kernel applied to a piece *)
Definition piece_ev (k : list expr) (p : piece) (x : F) : F := kap1 k (p ++ [x]).

Definition run_pw_eval (kseg_ev : list expr) (segs : list (list Z)) (xs : list Z) : list Z :=
  let sg := mksegs segs in
  match sg with
  | [] => PANIC
  | _ => map (fun xb => match pw_eval flt (seg_ev kseg_ev) sg (of_bits xb) with
                        | Some r => to_bits r
                        | None => -1 end) xs
  end.

Definition run_evaluator (kseg_ev : list expr) (segs : list (list Z)) (xs : list Z) : list Z :=
  match split_last (mksegs segs) with
  | None => PANIC
  | Some (front, last) =>
      let s0 := init front last in
      Z.of_nat (length (tail s0)) :: to_bits (lastx s0) ::
      flat_map (fun '(x, (g, s)) =>
                  [to_bits (seg_ev kseg_ev g x); Z.of_nat (length (tail s)); to_bits (lastx s)])
               (combine (map of_bits xs) (run flt fle is_nanb front last s0 (map of_bits xs)))
  end.

Definition run_evaluate_v (kpiece_ev : list expr) (segs : list (list Z)) (xs : list Z) : list Z :=
  match ev_v_answers flt (piece_ev kpiece_ev) (mksegs segs) (map of_bits xs) with
  | None => PANIC
  | Some l => map to_bits l
  end.

(* merge with the IntOfLogPoly4 reference-operand kernel (12 inputs, 6 outputs) *)
Definition run_merge (kop : list expr) (f g : list (list Z)) : list Z :=
  match merge fcmp (fun a b => kap kop (a ++ b)) (mksegs f) (mksegs g) with
  | None => PANIC
  | Some r => dump_segs r
  end.

(* map-style operations: kernel on Segment<T> numbers (+ extra scalars) *)
Definition run_pw_map (kseg : list expr) (segs : list (list Z)) (extra : list Z) : list Z :=
  dump_segs (map (fun s => seg_of_nums (kap kseg (seg_nums s ++ map of_bits extra))) (mksegs segs)).
(* Piecewise::neg applies T::neg to seg.poly and leaves seg.end untouched *)
Definition run_pw_neg (kpiece_neg : list expr) (segs : list (list Z)) : list Z :=
  dump_segs (map (fun s => (fst s, kap kpiece_neg (snd s))) (mksegs segs)).

Definition seg_integral_k (k : list expr) (s : fseg) (kn : F * F) : fseg :=
  seg_of_nums (kap k (seg_nums s ++ [fst kn; snd kn])).
Definition seg_indef_k (k : list expr) (s : fseg) : fseg := seg_of_nums (kap k (seg_nums s)).

Definition mkknot (zs : list Z) : F * F :=
  match zs with [a; b] => (of_bits a, of_bits b) | _ => (fnan, fnan) end.

Definition run_pw_integral (kint kevI : list expr) (segs : list (list Z)) (knot : list Z) : list Z :=
  dump_segs (pw_integral (seg_integral_k kint) (seg_ev kevI) (mksegs segs) (mkknot knot)).
Definition run_pw_indefinite (kint kindef kevI : list expr) (segs : list (list Z)) : list Z :=
  dump_segs (pw_indefinite (seg_integral_k kint) (seg_indef_k kindef) (seg_ev kevI) (mksegs segs)).

(* T::integral(knot) (or indefinite when knot = []) followed by IntegralOf::evaluate at each t *)
Definition run_integral_eval (kint kev : list expr) (cs knot ts : list Z) : list Z :=
  let outs := kap kint (map of_bits (cs ++ knot)) in
  map to_bits outs ++ map (fun t => to_bits (kap1 kev (outs ++ [of_bits t]))) ts.

(* linear::incr_linear as a function on knots: kernel outputs [end; c0; c1; prev.x; prev.y] *)
Definition incr_k (kincr : list expr) (p c : F * F) : fseg * (F * F) :=
  let o := kap kincr [fst p; snd p; fst c; snd c] in
  ((nth 0 o fnan, [nth 1 o fnan; nth 2 o fnan]), (nth 3 o fnan, nth 4 o fnan)).
Definition run_linear (kincr : list expr) (knots : list (list Z)) : list Z :=
  match linear (incr_k kincr) (map mkknot knots) with
  | None => PANIC
  | Some r => dump_segs r
  end.

Definition run_spline (kfdx kf0 kfn kseg : list expr) (knots : list (list Z)) : list Z :=
  let fdx (a b c : F * F) := kap1 kfdx [fst a; snd a; fst b; snd b; fst c; snd c] in
  let f0 (y1 y0 x1 x0 f1 : F) := kap1 kf0 [y1; y0; x1; x0; f1] in
  let fn (yn ym xn xm fm : F) := kap1 kfn [yn; ym; xn; xm; fm] in
  let sg (fa : F) (ka : F * F) (fb : F) (kb : F * F) : fseg :=
    seg_of_nums (kap kseg [fa; fst ka; snd ka; fb; fst kb; snd kb]) in
  match constrained_spline fdx f0 fn sg (map mkknot knots) with
  | None => PANIC
  | Some r => dump_segs r
  end.

(* approx on slices (Vec<Segment<T>>, PolyN): equal lengths and every pair related; third output: PartialEq (==) *)
Definition b2z (b : bool) : Z := if b then 1 else 0.
Definition run_approx_pw (kabs krel : bexpr) (a b : list (list Z)) (eps rel : Z) : list Z :=
  let same := Nat.eqb (length a) (length b) in
  let sl (k : bexpr) (extra : list Z) :=
    same && forallb (fun p => beval FOps0 (map of_bits (fst p ++ snd p ++ extra)) k) (combine a b) in
  let eqs := same && forallb (fun p => Nat.eqb (length (fst p)) (length (snd p)) &&
                                       forallb (fun q => feq (of_bits (fst q)) (of_bits (snd q))) (combine (fst p) (snd p))) (combine a b) in
  let self (k : bexpr) (extra : list Z) := forallb (fun p => beval FOps0 (map of_bits (p ++ p ++ extra)) k) a in
  [b2z (sl kabs [eps]); b2z (sl krel [eps; rel]); b2z eqs; b2z (self kabs [eps]); b2z (self krel [eps; rel])].
Definition run_approx_polyn (a b : list Z) (eps rel : Z) : list Z :=
  let same := Nat.eqb (length a) (length b) in
  let prs := combine (map of_bits a) (map of_bits b) in
  [b2z (same && forallb (fun p => f_absdiffeq (fst p) (snd p) (of_bits eps)) prs);
   b2z (same && forallb (fun p => f_releq (fst p) (snd p) (of_bits eps) (of_bits rel)) prs);
   b2z (same && forallb (fun p => feq (fst p) (snd p)) prs)].

Definition run_polyn_eval (cs xs : list Z) : list Z :=
  map (fun x => to_bits (polyn_eval fzero ffma (map of_bits cs) (of_bits x))) xs.
Definition run_polyn_translate (cs : list Z) (v : Z) : list Z :=
  map to_bits (polyn_translate fadd (map of_bits cs) (of_bits v)).
(* Piecewise<PolyN>::translate: every piece through PolyN::translate, ends and count untouched *)
Definition run_pw_translate_polyn (segs : list (list Z)) (v : Z) : list Z :=
  Z.of_nat (length segs) ::
  flat_map (fun s => match s with
                     | [] => []
                     | e :: cs => let r := polyn_translate fadd (map of_bits cs) (of_bits v) in
                                  to_bits (of_bits e) :: Z.of_nat (length r) :: map to_bits r
                     end) segs.
End R.

(* serialisation: token stream of the serde data-model calls, then the borsh bytes *)
Definition run_wire (s : shape) (v : val) : list Z :=
  Z.of_nat (length (ser s v)) :: ser s v ++ Z.of_nat (length (enc s v)) :: enc s v.
