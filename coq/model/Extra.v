(* further skeleton models (Arbitrary pipeline, serialisation wire forms): see below *)
From Coq Require Import ZArith List Bool.
Require Import PP.FloatModel PP.Expr PP.FloatOps PP.Model.PwModel.
Import ListNotations.
