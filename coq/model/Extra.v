(* Further skeleton models: the Arbitrary pipeline (byte-level decoder of the `arbitrary` crate as used here +
   the repo's own filtering and sorting) and the serialisation wire forms. Definitions only. *)
From Coq Require Import ZArith List Bool.
Require Import PP.FloatModel PP.Expr PP.FloatOps PP.Model.PwModel.
Import ListNotations.
Local Open Scope Z_scope.

(* ---- arbitrary 1.4.2: Unstructured ---- *)
(* fill_buffer: n bytes, zero-filled when the input runs out *)
Definition take (n : nat) (bs : list Z) : list Z * list Z :=
  let got := firstn n bs in (got ++ repeat 0 (n - length got), skipn n bs).
Definition get_u8 (bs : list Z) : Z * list Z := match bs with [] => (0, []) | b :: r => (b, r) end.
Definition le_int (l : list Z) : Z := fold_right (fun b acc => b + 256 * acc) 0 l.
(* u64::from_le_bytes, then f64::from_bits: we keep the bit pattern *)
Definition get_f64 (bs : list Z) : Z * list Z := let '(b, r) := take 8 bs in (le_int b, r).
(* Vec<f64>: while bool { element };  bool = low bit of one byte; an exhausted input reads zeros, i.e. false *)
Fixpoint get_vec (fuel : nat) (bs : list Z) (acc : list Z) : list Z * list Z :=
  match fuel with
  | O => (rev acc, bs)
  | S f => let '(k, r) := get_u8 bs in
           if Z.odd k then let '(x, r') := get_f64 r in get_vec f r' (x :: acc)
           else (rev acc, r)
  end.
Definition get_vec_f64 (bs : list Z) := get_vec (S (length bs)) bs [].
(* PolyK / [f64; N]: N numbers in index order *)
Fixpoint get_n_f64 (n : nat) (bs : list Z) : list Z * list Z :=
  match n with
  | O => ([], bs)
  | S m => let '(x, r) := get_f64 bs in let '(xs, r') := get_n_f64 m r in (x :: xs, r')
  end.

(* ---- the repo's pipeline (piecewise.rs, impl Arbitrary for Piecewise<T>) ---- *)
Inductive arb_result (X : Type) := ArbErr | ArbPanic | ArbOk (x : X).
Arguments ArbErr {X}. Arguments ArbPanic {X}. Arguments ArbOk {X}.

(* ends.sort_by(|x,y| x.partial_cmp(y).unwrap()): insertion sort; None = the unwrap panics *)
Fixpoint insert_f (x : F) (l : list F) : option (list F) :=
  match l with
  | [] => Some [x]
  | y :: r => match fcmp x y with
              | None => None
              | Some Gt => option_map (cons y) (insert_f x r)
              | Some _ => Some (x :: y :: r)
              end
  end.
Fixpoint isort_f (l : list F) : option (list F) :=
  match l with
  | [] => Some []
  | x :: r => match isort_f r with None => None | Some s => insert_f x s end
  end.
(* a piece decoder: T::arbitrary on the remaining bytes; it may fail (ArbErr) - the derived decoders of PolyK never do, a nested
   Piecewise<..> does *)
Definition decoder (P : Type) := list Z -> arb_result (P * list Z).
(* ends.into_iter().map(|end| Ok(Segment{end, poly: T::arbitrary(u)?})).collect::<Result<Vec<_>>>()? : the first failing piece
   fails the whole function *)
Fixpoint draw_pieces_g {P : Type} (piece : decoder P) (ends : list F) (bs : list Z) : arb_result (list (F * P) * list Z) :=
  match ends with
  | [] => ArbOk ([], bs)
  | e :: r => match piece bs with
              | ArbErr => ArbErr
              | ArbPanic => ArbPanic
              | ArbOk (p, bs') => match draw_pieces_g piece r bs' with
                                  | ArbErr => ArbErr
                                  | ArbPanic => ArbPanic
                                  | ArbOk (l, bs'') => ArbOk ((e, p) :: l, bs'')
                                  end
              end
  end.
Definition arb_piecewise_g {P : Type} (piece : decoder P) (bs : list Z) : arb_result (list (F * P) * list Z) :=
  let '(ends, rest) := get_vec_f64 bs in
  let fe := map of_bits ends in
  if (match fe with [] => true | _ => false end) || negb (forallb is_normalb fe) then ArbErr
  else match isort_f fe with
       | None => ArbPanic
       | Some s => draw_pieces_g piece s rest
       end.
Definition poly_piece (n : nat) : decoder (list Z) := fun bs => ArbOk (get_n_f64 n bs).
Definition drop_rest {X : Type} (r : arb_result (X * list Z)) : arb_result X :=
  match r with ArbErr => ArbErr | ArbPanic => ArbPanic | ArbOk (x, _) => ArbOk x end.
(* Piecewise<PolyK> with n = K+1 numbers per piece *)
Definition arb_piecewise (npiece : nat) (bs : list Z) : arb_result (list (F * list Z)) :=
  drop_rest (arb_piecewise_g (poly_piece npiece) bs).
(* Piecewise<Piecewise<PolyK>>: the piece decoder is the same function one level down *)
Definition arb_nested (npiece : nat) (bs : list Z) : arb_result (list (F * list (F * list Z))) :=
  drop_rest (arb_piecewise_g (arb_piecewise_g (poly_piece npiece)) bs).

Definition dump_arb (segs : list (F * list Z)) : list Z :=
  Z.of_nat (length segs) :: flat_map (fun s => to_bits (fst s) :: snd s) segs.
Definition run_arbitrary (npiece : nat) (bs : list Z) : list Z :=
  match arb_piecewise npiece bs with
  | ArbErr => [0]
  | ArbPanic => [-1]
  | ArbOk segs => 1 :: dump_arb segs
  end.
Definition run_arbitrary_nested (npiece : nat) (bs : list Z) : list Z :=
  match arb_nested npiece bs with
  | ArbErr => [0]
  | ArbPanic => [-1]
  | ArbOk segs => 1 :: Z.of_nat (length segs) :: flat_map (fun s => to_bits (fst s) :: dump_arb (snd s)) segs
  end.
Definition run_arb_vec (bs : list Z) : list Z :=
  let '(v, rest) := get_vec_f64 bs in 1 :: Z.of_nat (length v) :: (map (fun z => to_bits (of_bits z)) v ++ [Z.of_nat (length rest)]).
