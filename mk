#!/bin/sh
# developer helper: regenerate kernels, refresh Makefile, build everything (or the given targets)
cd "$(dirname "$0")" && python3 -c "
import sys; sys.path.insert(0,'tools')
from vlib import common as C
C.translate(); C.coq_makefile()" && cd coq && make -j16 -k "$@" 2>&1 | grep -v "^COQC\|^COQDEP\|^make" | head -60
