// Correspondence / property harness: runs the REAL crate on cases read from stdin (one JSON
// object per line) and prints one JSON result line per case.  All numbers travel as u64 bit
// patterns.  A panic inside the crate is reported as {"r":"PANIC"}.
use piecewise_polynomial::*;
use serde_json::{json, Value};
use std::io::{BufRead, Write};
use std::ops::{Add, Mul, MulAssign, Neg};
use std::panic::{catch_unwind, AssertUnwindSafe};
use approx::{AbsDiffEq, RelativeEq};

mod wire;

// ---------------------------------------------------------------------------------------------
// numbers <-> values
// ---------------------------------------------------------------------------------------------
pub trait Num: Sized + Clone + Copy + PartialEq + std::fmt::Debug {
    fn n() -> usize;
    fn name() -> String;
    fn of(a: &[u64]) -> Self;
    fn put(&self, out: &mut Vec<u64>);
}
fn f(b: u64) -> f64 {
    f64::from_bits(b)
}
impl Num for f64 {
    fn n() -> usize {
        1
    }
    fn name() -> String {
        "f64".into()
    }
    fn of(a: &[u64]) -> Self {
        f(a[0])
    }
    fn put(&self, out: &mut Vec<u64>) {
        out.push(self.to_bits())
    }
}
impl Num for Knot {
    fn n() -> usize {
        2
    }
    fn name() -> String {
        "Knot".into()
    }
    fn of(a: &[u64]) -> Self {
        Knot { x: f(a[0]), y: f(a[1]) }
    }
    fn put(&self, out: &mut Vec<u64>) {
        out.push(self.x.to_bits());
        out.push(self.y.to_bits());
    }
}
impl Num for Poly0 {
    fn n() -> usize {
        1
    }
    fn name() -> String {
        "Poly0".into()
    }
    fn of(a: &[u64]) -> Self {
        Poly0(f(a[0]))
    }
    fn put(&self, out: &mut Vec<u64>) {
        out.push(self.0.to_bits())
    }
}
macro_rules! num_poly {
    ($t:ident, $n:expr) => {
        impl Num for $t {
            fn n() -> usize {
                $n
            }
            fn name() -> String {
                stringify!($t).into()
            }
            fn of(a: &[u64]) -> Self {
                let mut c = [0.0f64; $n];
                for i in 0..$n {
                    c[i] = f(a[i]);
                }
                $t(c)
            }
            fn put(&self, out: &mut Vec<u64>) {
                for x in self.0.iter() {
                    out.push(x.to_bits());
                }
            }
        }
    };
}
num_poly!(Poly1, 2);
num_poly!(Poly2, 3);
num_poly!(Poly3, 4);
num_poly!(Poly4, 5);
num_poly!(Poly5, 6);
num_poly!(Poly6, 7);
num_poly!(Poly7, 8);
num_poly!(Poly8, 9);
impl<T: Num> Num for Log<T> {
    fn n() -> usize {
        T::n()
    }
    fn name() -> String {
        format!("Log<{}>", T::name())
    }
    fn of(a: &[u64]) -> Self {
        Log(T::of(a))
    }
    fn put(&self, out: &mut Vec<u64>) {
        self.0.put(out)
    }
}
impl<T: Num> Num for IntOfLog<T> {
    fn n() -> usize {
        1 + T::n()
    }
    fn name() -> String {
        format!("IntOfLog<{}>", T::name())
    }
    fn of(a: &[u64]) -> Self {
        IntOfLog { k: f(a[0]), poly: T::of(&a[1..]) }
    }
    fn put(&self, out: &mut Vec<u64>) {
        out.push(self.k.to_bits());
        self.poly.put(out)
    }
}
impl Num for IntOfLogPoly4 {
    fn n() -> usize {
        6
    }
    fn name() -> String {
        "IntOfLogPoly4".into()
    }
    fn of(a: &[u64]) -> Self {
        IntOfLogPoly4 { k: f(a[0]), coeffs: [f(a[1]), f(a[2]), f(a[3]), f(a[4])], u: f(a[5]) }
    }
    fn put(&self, out: &mut Vec<u64>) {
        out.push(self.k.to_bits());
        for x in self.coeffs.iter() {
            out.push(x.to_bits());
        }
        out.push(self.u.to_bits());
    }
}
impl<T: Num> Num for Segment<T> {
    fn n() -> usize {
        1 + T::n()
    }
    fn name() -> String {
        format!("Segment<{}>", T::name())
    }
    fn of(a: &[u64]) -> Self {
        Segment { end: f(a[0]), poly: T::of(&a[1..]) }
    }
    fn put(&self, out: &mut Vec<u64>) {
        out.push(self.end.to_bits());
        self.poly.put(out)
    }
}

fn out1<T: Num>(v: &T) -> Vec<u64> {
    let mut o = Vec::new();
    v.put(&mut o);
    o
}
pub fn u64s(v: &Value) -> Vec<u64> {
    v.as_array().expect("array").iter().map(|x| x.as_u64().expect("u64")).collect()
}
pub fn parse_segs<T: Num>(v: &Value) -> Vec<Segment<T>> {
    v.as_array()
        .expect("segs")
        .iter()
        .map(|s| {
            let a = u64s(s);
            assert!(a.len() == 1 + T::n(), "segment arity");
            Segment::<T>::of(&a)
        })
        .collect()
}
pub fn dump_segs<T: Num>(segs: &[Segment<T>]) -> Vec<u64> {
    let mut o = vec![segs.len() as u64];
    for s in segs {
        s.put(&mut o);
    }
    o
}
fn parse_knots(v: &Value) -> Vec<Knot> {
    v.as_array().expect("knots").iter().map(|k| Knot::of(&u64s(k))).collect()
}

// ---------------------------------------------------------------------------------------------
// type lists
// ---------------------------------------------------------------------------------------------
macro_rules! dispatch {
    ($ty:expr; $f:ident $args:tt; $($t:ty),*) => {{
        let ty: &str = $ty;
        let mut res: Option<Vec<u64>> = None;
        $( if res.is_none() && ty == <$t as Num>::name() { res = Some($f::<$t> $args); } )*
        res.unwrap_or_else(|| panic!("HARNESS: type {} not available for {}", ty, stringify!($f)))
    }};
}
macro_rules! t_poly { ($ty:expr; $f:ident $args:tt) => { dispatch!($ty; $f $args;
    Poly0, Poly1, Poly2, Poly3, Poly4, Poly5, Poly6, Poly7, Poly8) } }
macro_rules! t_seg_poly { ($ty:expr; $f:ident $args:tt) => { dispatch!($ty; $f $args;
    Poly0, Poly1, Poly2, Poly3, Poly4, Poly5, Poly6, Poly7, Poly8,
    Segment<Poly0>, Segment<Poly1>, Segment<Poly2>, Segment<Poly3>, Segment<Poly4>, Segment<Poly5>, Segment<Poly6>, Segment<Poly7>, Segment<Poly8>) } }
macro_rules! t_all { ($ty:expr; $f:ident $args:tt) => { dispatch!($ty; $f $args;
    Poly0, Poly1, Poly2, Poly3, Poly4, Poly5, Poly6, Poly7, Poly8,
    Log<Poly0>, Log<Poly1>, Log<Poly2>, Log<Poly3>, Log<Poly4>, Log<Poly5>, Log<Poly6>, Log<Poly7>, Log<Poly8>,
    IntOfLog<Poly0>, IntOfLog<Poly1>, IntOfLog<Poly2>, IntOfLog<Poly3>, IntOfLog<Poly4>, IntOfLog<Poly5>, IntOfLog<Poly6>, IntOfLog<Poly7>, IntOfLog<Poly8>,
    IntOfLogPoly4) } }
macro_rules! t_seg_all { ($ty:expr; $f:ident $args:tt) => { dispatch!($ty; $f $args;
    Poly0, Poly1, Poly2, Poly3, Poly4, Poly5, Poly6, Poly7, Poly8,
    Log<Poly0>, Log<Poly1>, Log<Poly2>, Log<Poly3>, Log<Poly4>, Log<Poly5>, Log<Poly6>, Log<Poly7>, Log<Poly8>,
    IntOfLog<Poly0>, IntOfLog<Poly1>, IntOfLog<Poly2>, IntOfLog<Poly3>, IntOfLog<Poly4>, IntOfLog<Poly5>, IntOfLog<Poly6>, IntOfLog<Poly7>, IntOfLog<Poly8>,
    IntOfLogPoly4,
    Segment<Poly0>, Segment<Poly1>, Segment<Poly2>, Segment<Poly3>, Segment<Poly4>, Segment<Poly5>, Segment<Poly6>, Segment<Poly7>, Segment<Poly8>,
    Segment<Log<Poly0>>, Segment<Log<Poly1>>, Segment<Log<Poly2>>, Segment<Log<Poly3>>, Segment<Log<Poly4>>, Segment<Log<Poly5>>, Segment<Log<Poly6>>, Segment<Log<Poly7>>, Segment<Log<Poly8>>,
    Segment<IntOfLog<Poly0>>, Segment<IntOfLog<Poly1>>, Segment<IntOfLog<Poly2>>, Segment<IntOfLog<Poly3>>, Segment<IntOfLog<Poly4>>, Segment<IntOfLog<Poly5>>, Segment<IntOfLog<Poly6>>, Segment<IntOfLog<Poly7>>, Segment<IntOfLog<Poly8>>,
    Segment<IntOfLogPoly4>) } }
// integrable: Poly0..7 and Log<Poly0..8>
macro_rules! t_integrable { ($ty:expr; $f:ident $args:tt) => { dispatch!($ty; $f $args;
    Poly0, Poly1, Poly2, Poly3, Poly4, Poly5, Poly6, Poly7,
    Log<Poly0>, Log<Poly1>, Log<Poly2>, Log<Poly3>, Log<Poly4>, Log<Poly5>, Log<Poly6>, Log<Poly7>, Log<Poly8>) } }
macro_rules! t_seg_integrable { ($ty:expr; $f:ident $args:tt) => { dispatch!($ty; $f $args;
    Poly0, Poly1, Poly2, Poly3, Poly4, Poly5, Poly6, Poly7,
    Log<Poly0>, Log<Poly1>, Log<Poly2>, Log<Poly3>, Log<Poly4>, Log<Poly5>, Log<Poly6>, Log<Poly7>, Log<Poly8>,
    Segment<Poly0>, Segment<Poly1>, Segment<Poly2>, Segment<Poly3>, Segment<Poly4>, Segment<Poly5>, Segment<Poly6>, Segment<Poly7>,
    Segment<Log<Poly0>>, Segment<Log<Poly1>>, Segment<Log<Poly2>>, Segment<Log<Poly3>>, Segment<Log<Poly4>>, Segment<Log<Poly5>>, Segment<Log<Poly6>>, Segment<Log<Poly7>>, Segment<Log<Poly8>>) } }
// Mul<f64, Output = Self>: everything (and segments of everything)
macro_rules! t_mulassign { ($ty:expr; $f:ident $args:tt) => { dispatch!($ty; $f $args;
    Poly0, Poly1, Poly2, Poly3, Poly4, Poly5, Poly6, Poly7, Poly8,
    Log<Poly0>, Log<Poly1>, Log<Poly2>, Log<Poly3>, Log<Poly4>, Log<Poly5>, Log<Poly6>, Log<Poly7>, Log<Poly8>,
    IntOfLog<Poly0>, IntOfLog<Poly1>, IntOfLog<Poly2>, IntOfLog<Poly3>, IntOfLog<Poly4>, IntOfLog<Poly5>, IntOfLog<Poly6>, IntOfLog<Poly7>, IntOfLog<Poly8>) } }
macro_rules! t_seg_mulassign { ($ty:expr; $f:ident $args:tt) => { dispatch!($ty; $f $args;
    Poly0, Poly1, Poly2, Poly3, Poly4, Poly5, Poly6, Poly7, Poly8,
    Log<Poly0>, Log<Poly1>, Log<Poly2>, Log<Poly3>, Log<Poly4>, Log<Poly5>, Log<Poly6>, Log<Poly7>, Log<Poly8>,
    IntOfLog<Poly0>, IntOfLog<Poly1>, IntOfLog<Poly2>, IntOfLog<Poly3>, IntOfLog<Poly4>, IntOfLog<Poly5>, IntOfLog<Poly6>, IntOfLog<Poly7>, IntOfLog<Poly8>,
    Segment<Poly0>, Segment<Poly1>, Segment<Poly2>, Segment<Poly3>, Segment<Poly4>, Segment<Poly5>, Segment<Poly6>, Segment<Poly7>, Segment<Poly8>,
    Segment<Log<Poly0>>, Segment<Log<Poly1>>, Segment<Log<Poly2>>, Segment<Log<Poly3>>, Segment<Log<Poly4>>, Segment<Log<Poly5>>, Segment<Log<Poly6>>, Segment<Log<Poly7>>, Segment<Log<Poly8>>,
    Segment<IntOfLog<Poly0>>, Segment<IntOfLog<Poly1>>, Segment<IntOfLog<Poly2>>, Segment<IntOfLog<Poly3>>, Segment<IntOfLog<Poly4>>, Segment<IntOfLog<Poly5>>, Segment<IntOfLog<Poly6>>, Segment<IntOfLog<Poly7>>, Segment<IntOfLog<Poly8>>) } }
// Neg / Add: polynomials, IntOfLog<poly>, IntOfLogPoly4
macro_rules! t_negadd { ($ty:expr; $f:ident $args:tt) => { dispatch!($ty; $f $args;
    Poly0, Poly1, Poly2, Poly3, Poly4, Poly5, Poly6, Poly7, Poly8,
    IntOfLog<Poly0>, IntOfLog<Poly1>, IntOfLog<Poly2>, IntOfLog<Poly3>, IntOfLog<Poly4>, IntOfLog<Poly5>, IntOfLog<Poly6>, IntOfLog<Poly7>, IntOfLog<Poly8>,
    IntOfLogPoly4) } }

// ---------------------------------------------------------------------------------------------
// kernels
// ---------------------------------------------------------------------------------------------
fn k_evaluate<T: Evaluate + Num>(a: &[u64]) -> Vec<u64> {
    let t = T::of(a);
    vec![t.evaluate(f(a[T::n()])).to_bits()]
}
fn k_derivative<T: HasDerivative + Num>(a: &[u64]) -> Vec<u64>
where
    T::DerivativeOf: Num,
{
    out1(&T::of(a).derivative())
}
fn k_indefinite<T: HasIntegral + Num>(a: &[u64]) -> Vec<u64>
where
    T::IntegralOf: Num,
{
    out1(&T::of(a).indefinite())
}
fn k_integral<T: HasIntegral + Num>(a: &[u64]) -> Vec<u64>
where
    T::IntegralOf: Num,
{
    let n = T::n();
    out1(&T::of(a).integral(Knot { x: f(a[n]), y: f(a[n + 1]) }))
}
fn k_translate<T: Translate + Num>(a: &[u64]) -> Vec<u64> {
    let mut t = T::of(a);
    t.translate(f(a[T::n()]));
    out1(&t)
}
fn k_mul<T: Mul<f64, Output = T> + Num>(a: &[u64]) -> Vec<u64> {
    out1(&(T::of(a) * f(a[T::n()])))
}
fn k_mul_assign<T: MulAssign<f64> + Num>(a: &[u64]) -> Vec<u64> {
    let mut t = T::of(a);
    t *= f(a[T::n()]);
    out1(&t)
}
fn k_neg<T: Neg<Output = T> + Num>(a: &[u64]) -> Vec<u64> {
    out1(&(-T::of(a)))
}
fn k_add<T: Add<Output = T> + Num>(a: &[u64]) -> Vec<u64> {
    out1(&(T::of(a) + T::of(&a[T::n()..])))
}

fn run_kernel(name: &str, a: &[u64]) -> Vec<u64> {
    // free-function kernels (through the cfg-guarded hooks)
    match name {
        "spline::f_dx" => {
            return vec![verif_hooks_spline::f_dx(Knot::of(a), Knot::of(&a[2..]), Knot::of(&a[4..])).to_bits()]
        }
        "spline::segment" => {
            return out1(&verif_hooks_spline::segment(f(a[0]), Knot::of(&a[1..]), f(a[3]), Knot::of(&a[4..])))
        }
        "linear::segment" => return out1(&verif_hooks_linear::segment(Knot::of(a), Knot::of(&a[2..]))),
        "linear::incr_linear" => {
            let mut prev = Knot::of(a);
            let seg = verif_hooks_linear::incr_linear(&mut prev, Knot::of(&a[2..]));
            let mut o = out1(&seg);
            prev.put(&mut o);
            return o;
        }
        "taylor::exp_5_taylor" => return vec![verif_hooks_log::exp_5_taylor(f(a[0])).to_bits()],
        "taylor::exp_5_tail_taylor" => return vec![verif_hooks_log::exp_5_tail_taylor(f(a[0])).to_bits()],
        "taylor::exp_5_tail_anal" => return vec![verif_hooks_log::exp_5_tail_anal(f(a[0])).to_bits()],
        "&IntOfLogPoly4::add" => return out1(&(&IntOfLogPoly4::of(a) + &IntOfLogPoly4::of(&a[6..]))),
        "&IntOfLogPoly4::sub" => return out1(&(&IntOfLogPoly4::of(a) - &IntOfLogPoly4::of(&a[6..]))),
        "IntOfLogPoly4::sub" => return out1(&(IntOfLogPoly4::of(a) - IntOfLogPoly4::of(&a[6..]))),
        "Segment<IntOfLogPoly4>::mul" => return out1(&(Segment::<IntOfLogPoly4>::of(a) * f(a[7]))),
        "IntOfLogPoly4::mul" => return out1(&(IntOfLogPoly4::of(a) * f(a[6]))),
        _ => {}
    }
    let ix = name.rfind("::").expect("kernel name");
    let (ty, meth) = (&name[..ix], &name[ix + 2..]);
    match meth {
        "evaluate" => t_seg_all!(ty; k_evaluate(a)),
        "derivative" => t_seg_poly!(ty; k_derivative(a)),
        "indefinite" => t_seg_integrable!(ty; k_indefinite(a)),
        "integral" => t_seg_integrable!(ty; k_integral(a)),
        "translate" => t_seg_all!(ty; k_translate(a)),
        "mul" => t_seg_mulassign!(ty; k_mul(a)),
        "mul_assign" => t_seg_mulassign!(ty; k_mul_assign(a)),
        "neg" => t_negadd!(ty; k_neg(a)),
        "add" => t_negadd!(ty; k_add(a)),
        _ => panic!("HARNESS: unknown kernel method {}", meth),
    }
}

// ---------------------------------------------------------------------------------------------
// skeleton operations
// ---------------------------------------------------------------------------------------------
fn op_pw_eval<T: Evaluate + Num>(c: &Value) -> Vec<u64> {
    let pw = Piecewise { segments: parse_segs::<T>(&c["segs"]) };
    u64s(&c["xs"]).iter().map(|&x| pw.evaluate(f(x)).to_bits()).collect()
}
fn op_evaluator<T: Evaluate + Num>(c: &Value) -> Vec<u64> {
    let segs = parse_segs::<T>(&c["segs"]);
    let mut ev = PiecewiseEvaluator::new(&segs);
    let mut o = Vec::new();
    let (t, l) = ev.verif_state();
    o.push(t as u64);
    o.push(l);
    for &x in u64s(&c["xs"]).iter() {
        let r = ev.evaluate(f(x));
        let (t, l) = ev.verif_state();
        o.push(r.to_bits());
        o.push(t as u64);
        o.push(l);
    }
    o
}
// per query: the stateful evaluator's answer, then Piecewise::evaluate on the same argument (same function, fresh search)
fn op_evaluator_direct<T: Evaluate + Num>(c: &Value) -> Vec<u64> {
    let segs = parse_segs::<T>(&c["segs"]);
    let pw = Piecewise { segments: segs.clone() };
    let mut ev = PiecewiseEvaluator::new(&segs);
    let mut o = Vec::new();
    for &x in u64s(&c["xs"]).iter() {
        o.push(ev.evaluate(f(x)).to_bits());
        o.push(pw.evaluate(f(x)).to_bits());
    }
    o
}
// per argument: the batch answer, then the piece selected by the RUNNING MAXIMUM of the arguments so far (first end above it,
// else the last piece - chosen here, through the public fields) evaluated AT the argument
fn op_evaluate_v_rm<T: Evaluate + Num>(c: &Value) -> Vec<u64> {
    let pw = Piecewise { segments: parse_segs::<T>(&c["segs"]) };
    let xs: Vec<f64> = u64s(&c["xs"]).iter().map(|&x| f(x)).collect();
    let got: Vec<f64> = pw.evaluate_v(xs.clone()).collect();
    let mut o = Vec::new();
    let mut m = f64::NEG_INFINITY;
    for (x, g) in xs.iter().zip(got.iter()) {
        if *x > m {
            m = *x;
        }
        let seg = pw.segments.iter().find(|s| s.end > m).unwrap_or_else(|| pw.segments.last().expect("segments"));
        o.push(g.to_bits());
        o.push(seg.poly.evaluate(*x).to_bits());
    }
    o
}
// evaluate_v consumed in two stages: the first `take` values one by one through next(), the rest drained by a fold-based consumer
// (for_each); then once more with the rest drained through fold itself - both lists must be the one a plain collect gives
fn op_evaluate_v_mixed<T: Evaluate + Num>(c: &Value) -> Vec<u64> {
    let pw = Piecewise { segments: parse_segs::<T>(&c["segs"]) };
    let xs: Vec<f64> = u64s(&c["xs"]).iter().map(|&x| f(x)).collect();
    let take = c["take"].as_u64().unwrap_or(0) as usize;
    let mut o = Vec::new();
    {
        let mut it = pw.evaluate_v(xs.clone());
        for _ in 0..take {
            if let Some(r) = it.next() {
                o.push(r.to_bits());
            }
        }
        it.for_each(|r| o.push(r.to_bits()));
    }
    {
        let mut it = pw.evaluate_v(xs.clone());
        for _ in 0..take {
            if let Some(r) = it.next() {
                o.push(r.to_bits());
            }
        }
        let rest = it.fold(Vec::new(), |mut acc, r| {
            acc.push(r.to_bits());
            acc
        });
        o.extend(rest);
    }
    o
}
// tables far beyond what a case file can carry, built and checked HERE: n linear pieces (end i, i + 2i x); the derivative must have n
// pieces, piece i with end i and the single coefficient 2i.  Returns [count, index of the first wrong piece or u64::MAX]
fn op_pw_derivative_big(c: &Value) -> Vec<u64> {
    let n = c["n"].as_u64().expect("n") as usize;
    let segments: Vec<Segment<Poly1>> = (0..n).map(|i| Segment { end: i as f64, poly: Poly1([i as f64, 2.0 * i as f64]) }).collect();
    let d = Piecewise { segments }.derivative();
    let bad = d
        .segments
        .iter()
        .enumerate()
        .find(|(i, s)| s.end.to_bits() != (*i as f64).to_bits() || s.poly.0.to_bits() != (2.0 * *i as f64).to_bits())
        .map(|(i, _)| i as u64)
        .unwrap_or(u64::MAX);
    vec![d.segments.len() as u64, bad]
}
// n knots (i, a gently varying ordinate), built HERE; every interior knot slope of the returned cubics (derivative of cubic i at its
// right knot, from its coefficients) against the harmonic-mean rule computed directly.  Returns [count, first bad knot or u64::MAX]
fn op_spline_big(c: &Value) -> Vec<u64> {
    let n = c["n"].as_u64().expect("n") as usize;
    let ys: Vec<f64> = (0..n).map(|i| ((i * 37 % 101) as f64) * (0.125 / 101.0) + (i as f64) * 0.5).collect();
    let knots: Vec<Knot> = (0..n).map(|i| Knot { x: i as f64 * 0.5, y: ys[i] }).collect();
    let sp = constrained_spline(&knots);
    let mut bad = u64::MAX;
    for j in 1..n.saturating_sub(1) {
        let s0 = (ys[j] - ys[j - 1]) / 0.5;
        let s1 = (ys[j + 1] - ys[j]) / 0.5;
        let want = if s0 * s1 <= 0.0 { 0.0 } else { 2.0 / (1.0 / s0 + 1.0 / s1) };
        let x = knots[j].x;
        for seg in [j - 1, j] {
            let p = &sp.segments[seg].poly.0;
            let got = p[1] + x * (2.0 * p[2] + x * 3.0 * p[3]);
            // all slopes are about 1 and |x| stays below 1e5: the cubic's own rounding noise at its knot is below 1e-5
            if !((got - want).abs() <= 1e-4) {
                bad = bad.min(j as u64);
            }
        }
    }
    vec![sp.segments.len() as u64, bad]
}
fn op_evaluate_v<T: Evaluate + Num>(c: &Value) -> Vec<u64> {
    let pw = Piecewise { segments: parse_segs::<T>(&c["segs"]) };
    let xs: Vec<f64> = u64s(&c["xs"]).iter().map(|&x| f(x)).collect();
    pw.evaluate_v(xs).map(|r| r.to_bits()).collect()
}
// batch answers followed by the answers of the direct route (Piecewise::evaluate) on the same arguments
fn op_evaluate_v_pt<T: Evaluate + Num>(c: &Value) -> Vec<u64> {
    let pw = Piecewise { segments: parse_segs::<T>(&c["segs"]) };
    let xs: Vec<f64> = u64s(&c["xs"]).iter().map(|&x| f(x)).collect();
    let mut o: Vec<u64> = pw.evaluate_v(xs.clone()).map(|r| r.to_bits()).collect();
    o.extend(xs.iter().map(|&x| pw.evaluate(x).to_bits()));
    o
}
// laziness: the number of inputs pulled when k outputs have been taken must be exactly k
fn op_evaluate_v_lazy<T: Evaluate + Num>(c: &Value) -> Vec<u64> {
    let pw = Piecewise { segments: parse_segs::<T>(&c["segs"]) };
    let xs: Vec<f64> = u64s(&c["xs"]).iter().map(|&x| f(x)).collect();
    let pulled = std::cell::Cell::new(0u64);
    let src = xs.iter().map(|&x| {
        pulled.set(pulled.get() + 1);
        x
    });
    let mut it = pw.evaluate_v(src);
    let mut o = Vec::new();
    o.push(pulled.get());
    while let Some(r) = it.next() {
        o.push(r.to_bits());
        o.push(pulled.get());
    }
    o
}
fn op_pw_derivative<T: HasDerivative + Num>(c: &Value) -> Vec<u64>
where
    T::DerivativeOf: Num,
{
    let pw = Piecewise { segments: parse_segs::<T>(&c["segs"]) };
    dump_segs(&pw.derivative().segments)
}
fn knot_of(c: &Value) -> Knot {
    Knot::of(&u64s(&c["knot"]))
}
fn op_pw_integral<T: HasIntegral + Num>(c: &Value) -> Vec<u64>
where
    T::IntegralOf: Num + Translate,
{
    let pw = Piecewise { segments: parse_segs::<T>(&c["segs"]) };
    dump_segs(&pw.integral(knot_of(c)).segments)
}
fn op_pw_indefinite<T: HasIntegral + Num>(c: &Value) -> Vec<u64>
where
    T::IntegralOf: Num + Translate,
{
    let pw = Piecewise { segments: parse_segs::<T>(&c["segs"]) };
    dump_segs(&pw.indefinite().segments)
}
fn op_integral_iter<T: HasIntegral + Num>(c: &Value) -> Vec<u64>
where
    T::IntegralOf: Num + Translate,
{
    let segs = parse_segs::<T>(&c["segs"]);
    let v: Vec<_> = Segment::integral_iter(segs, knot_of(c)).collect();
    dump_segs(&v)
}
fn op_integral_iter_ref<T: HasIntegral + Num>(c: &Value) -> Vec<u64>
where
    T::IntegralOf: Num + Translate,
{
    let segs = parse_segs::<T>(&c["segs"]);
    let v: Vec<_> = Segment::integral_iter_ref(&segs, knot_of(c)).collect();
    dump_segs(&v)
}
// the two segment-integration iterators consumed through ADAPTORS instead of a plain collect: element i through nth(i) and through
// skip(i).next() on fresh iterators, and the whole list re-assembled from step_by(2) / skip(1).step_by(2); four full dumps
// (by value: nth, skip, step_by; by reference: nth) - every one must be the list a plain collect gives
fn op_integral_iter_adaptors<T: HasIntegral + Num>(c: &Value) -> Vec<u64>
where
    T::IntegralOf: Num + Translate,
{
    let segs = parse_segs::<T>(&c["segs"]);
    let n = segs.len();
    let mut o = Vec::new();
    let v: Vec<_> = (0..n).filter_map(|i| Segment::integral_iter(segs.clone(), knot_of(c)).nth(i)).collect();
    o.extend(dump_segs(&v));
    let v: Vec<_> = (0..n).filter_map(|i| Segment::integral_iter(segs.clone(), knot_of(c)).skip(i).next()).collect();
    o.extend(dump_segs(&v));
    let ev: Vec<_> = Segment::integral_iter(segs.clone(), knot_of(c)).step_by(2).collect();
    let od: Vec<_> = Segment::integral_iter(segs.clone(), knot_of(c)).skip(1).step_by(2).collect();
    let mut v = Vec::new();
    let (mut a, mut b) = (ev.into_iter(), od.into_iter());
    loop {
        match a.next() {
            Some(x) => v.push(x),
            None => break,
        }
        if let Some(y) = b.next() {
            v.push(y);
        }
    }
    o.extend(dump_segs(&v));
    let v: Vec<_> = (0..n).filter_map(|i| Segment::integral_iter_ref(&segs, knot_of(c)).nth(i)).collect();
    o.extend(dump_segs(&v));
    o
}
// Piecewise::integral, Segment::integral_iter (by value) and Segment::integral_iter_ref on the same input
fn op_pw_integral_all<T: HasIntegral + Num>(c: &Value) -> Vec<u64>
where
    T::IntegralOf: Num + Translate,
{
    let mut o = op_pw_integral::<T>(c);
    o.extend(op_integral_iter::<T>(c));
    o.extend(op_integral_iter_ref::<T>(c));
    // the same two iterators fed from sources that do not know their length (size_hint lower bound 0) and from a
    // hand-rolled generator: the result may not depend on what kind of iterator supplies the segments
    let segs = parse_segs::<T>(&c["segs"]);
    let v: Vec<_> = Segment::integral_iter(segs.clone().into_iter().filter(|_| true), knot_of(c)).collect();
    o.extend(dump_segs(&v));
    let mut src = segs.clone().into_iter();
    let v: Vec<_> = Segment::integral_iter(std::iter::from_fn(move || src.next()), knot_of(c)).collect();
    o.extend(dump_segs(&v));
    let v: Vec<_> = Segment::integral_iter_ref(segs.iter().filter(|_| true), knot_of(c)).collect();
    o.extend(dump_segs(&v));
    o
}
fn scalar_of(c: &Value) -> f64 {
    f(c["s"].as_u64().expect("s"))
}
fn op_pw_mul<T: Mul<f64, Output = T> + Copy + Num>(c: &Value) -> Vec<u64> {
    let pw = Piecewise { segments: parse_segs::<T>(&c["segs"]) };
    dump_segs(&(pw * scalar_of(c)).segments)
}
fn op_pw_mul_assign<T: MulAssign<f64> + Num>(c: &Value) -> Vec<u64> {
    let mut pw = Piecewise { segments: parse_segs::<T>(&c["segs"]) };
    pw *= scalar_of(c);
    dump_segs(&pw.segments)
}
fn op_pw_neg<T: Neg<Output = T> + Copy + Num>(c: &Value) -> Vec<u64> {
    let pw = Piecewise { segments: parse_segs::<T>(&c["segs"]) };
    dump_segs(&(-pw).segments)
}
fn op_pw_translate<T: Translate + Num>(c: &Value) -> Vec<u64> {
    let mut pw = Piecewise { segments: parse_segs::<T>(&c["segs"]) };
    pw.translate(scalar_of(c));
    dump_segs(&pw.segments)
}
fn op_pw_add(c: &Value) -> Vec<u64> {
    let a = Piecewise { segments: parse_segs::<IntOfLogPoly4>(&c["f"]) };
    let b = Piecewise { segments: parse_segs::<IntOfLogPoly4>(&c["g"]) };
    dump_segs(&(&a + &b).segments)
}
fn op_pw_sub(c: &Value) -> Vec<u64> {
    let a = Piecewise { segments: parse_segs::<IntOfLogPoly4>(&c["f"]) };
    let b = Piecewise { segments: parse_segs::<IntOfLogPoly4>(&c["g"]) };
    dump_segs(&(&a - &b).segments)
}
// values: per argument (f op g)(x), f(x), g(x), all through Piecewise::evaluate ("sub": true for the difference)
fn op_pw_merge_eval(c: &Value) -> Vec<u64> {
    let a = Piecewise { segments: parse_segs::<IntOfLogPoly4>(&c["f"]) };
    let b = Piecewise { segments: parse_segs::<IntOfLogPoly4>(&c["g"]) };
    let h = if c["sub"].as_bool().unwrap_or(false) { &a - &b } else { &a + &b };
    let mut o = vec![h.segments.len() as u64];
    for &x in u64s(&c["xs"]).iter() {
        o.push(h.evaluate(f(x)).to_bits());
        o.push(a.evaluate(f(x)).to_bits());
        o.push(b.evaluate(f(x)).to_bits());
    }
    o
}
fn op_linear(c: &Value) -> Vec<u64> {
    dump_segs(&linear(&parse_knots(&c["knots"])).segments)
}
// linear(knots) evaluated by the crate at the given arguments
fn op_linear_eval(c: &Value) -> Vec<u64> {
    let pw = linear(&parse_knots(&c["knots"]));
    u64s(&c["xs"]).iter().map(|&x| pw.evaluate(f(x)).to_bits()).collect()
}
fn op_spline(c: &Value) -> Vec<u64> {
    dump_segs(&constrained_spline(&parse_knots(&c["knots"])).segments)
}
fn op_polyn_eval(c: &Value) -> Vec<u64> {
    let p = PolyN(u64s(&c["cs"]).iter().map(|&b| f(b)).collect());
    u64s(&c["xs"]).iter().map(|&x| p.evaluate(f(x)).to_bits()).collect()
}
// Piecewise<PolyN>::translate: pieces of any length (also empty); dump = count, then end, length, coefficients per piece
fn op_pw_translate_polyn(c: &Value) -> Vec<u64> {
    let segments: Vec<Segment<PolyN>> = c["segs"]
        .as_array()
        .expect("segs")
        .iter()
        .map(|s| {
            let a = u64s(s);
            Segment { end: f(a[0]), poly: PolyN(a[1..].iter().map(|&b| f(b)).collect()) }
        })
        .collect();
    let mut pw = Piecewise { segments };
    pw.translate(scalar_of(c));
    let mut o = vec![pw.segments.len() as u64];
    for s in pw.segments.iter() {
        o.push(s.end.to_bits());
        o.push(s.poly.0.len() as u64);
        o.extend(s.poly.0.iter().map(|x| x.to_bits()));
    }
    o
}
fn op_polyn_translate(c: &Value) -> Vec<u64> {
    let mut p = PolyN(u64s(&c["cs"]).iter().map(|&b| f(b)).collect());
    p.translate(scalar_of(c));
    p.0.iter().map(|x| x.to_bits()).collect()
}

// integral of a log-polynomial through a knot, then evaluated at several points:
// result = numbers of the integral form ++ [F(t) for t in ts]
fn op_log_integral<T: HasIntegral + Num>(c: &Value) -> Vec<u64>
where
    T::IntegralOf: Num + Evaluate,
{
    let p = T::of(&u64s(&c["cs"]));
    let int = if c.get("knot").map(|k| !k.is_null()).unwrap_or(false) { p.integral(knot_of(c)) } else { p.indefinite() };
    let mut o = out1(&int);
    for &t in u64s(&c["ts"]).iter() {
        o.push(int.evaluate(f(t)).to_bits());
    }
    o
}

// Arbitrary: result is [0] for Err, or [1, n, end, piece..., ...]
fn op_arbitrary<T: Num + for<'a> arbitrary::Arbitrary<'a>>(c: &Value) -> Vec<u64> {
    let bytes: Vec<u8> = u64s(&c["bytes"]).iter().map(|&b| b as u8).collect();
    let mut u = arbitrary::Unstructured::new(&bytes);
    match <Piecewise<T> as arbitrary::Arbitrary>::arbitrary(&mut u) {
        Err(_) => vec![0],
        Ok(pw) => {
            let mut o = vec![1];
            o.extend(dump_segs(&pw.segments));
            o
        }
    }
}
// the trait's other entry point (what Unstructured::arbitrary_take_rest and fuzz targets call)
fn op_arbitrary_rest<T: Num + for<'a> arbitrary::Arbitrary<'a>>(c: &Value) -> Vec<u64> {
    let bytes: Vec<u8> = u64s(&c["bytes"]).iter().map(|&b| b as u8).collect();
    let u = arbitrary::Unstructured::new(&bytes);
    match <Piecewise<T> as arbitrary::Arbitrary>::arbitrary_take_rest(u) {
        Err(_) => vec![0],
        Ok(pw) => {
            let mut o = vec![1];
            o.extend(dump_segs(&pw.segments));
            o
        }
    }
}
// Piecewise<Piecewise<T>>: the piece decoder of the outer function can fail (inner end list empty or not normal)
fn op_arbitrary_nested<T: Num + for<'a> arbitrary::Arbitrary<'a>>(c: &Value) -> Vec<u64> {
    let bytes: Vec<u8> = u64s(&c["bytes"]).iter().map(|&b| b as u8).collect();
    let mut u = arbitrary::Unstructured::new(&bytes);
    match <Piecewise<Piecewise<T>> as arbitrary::Arbitrary>::arbitrary(&mut u) {
        Err(_) => vec![0],
        Ok(pw) => {
            let mut o = vec![1, pw.segments.len() as u64];
            for s in pw.segments.iter() {
                o.push(s.end.to_bits());
                o.extend(dump_segs(&s.poly.segments));
            }
            o
        }
    }
}
fn op_arb_eval_nested<T: Num + Evaluate + for<'a> arbitrary::Arbitrary<'a>>(c: &Value) -> Vec<u64> {
    let bytes: Vec<u8> = u64s(&c["bytes"]).iter().map(|&b| b as u8).collect();
    let mut u = arbitrary::Unstructured::new(&bytes);
    match <Piecewise<Piecewise<T>> as arbitrary::Arbitrary>::arbitrary(&mut u) {
        Err(_) => vec![0],
        Ok(pw) => {
            let mut xs: Vec<f64> = u64s(&c["xs"]).iter().map(|&x| f(x)).collect();
            let mut o = vec![1];
            let mut ev = PiecewiseEvaluator::new(&pw.segments);
            for &x in xs.iter() {
                o.push(pw.evaluate(x).to_bits());
                o.push(ev.evaluate(x).to_bits());
            }
            xs.retain(|x| !x.is_nan());
            xs.sort_by(|a, b| a.partial_cmp(b).unwrap_or(std::cmp::Ordering::Equal));
            for (x, r) in xs.iter().zip(pw.evaluate_v(xs.clone())) {
                o.push(pw.evaluate(*x).to_bits());
                o.push(r.to_bits());
            }
            o
        }
    }
}
// the external decoder on its own: Vec<f64> from the same bytes, plus how many bytes are left
fn op_arb_vec_f64(c: &Value) -> Vec<u64> {
    let bytes: Vec<u8> = u64s(&c["bytes"]).iter().map(|&b| b as u8).collect();
    let mut u = arbitrary::Unstructured::new(&bytes);
    match <Vec<f64> as arbitrary::Arbitrary>::arbitrary(&mut u) {
        Err(_) => vec![0],
        Ok(v) => {
            let mut o = vec![1, v.len() as u64];
            o.extend(v.iter().map(|x| x.to_bits()));
            o.push(u.len() as u64);
            o
        }
    }
}
// all three evaluation paths on an Arbitrary-generated function: must not panic and must agree
fn op_arb_eval<T: Num + Evaluate + for<'a> arbitrary::Arbitrary<'a>>(c: &Value) -> Vec<u64> {
    let bytes: Vec<u8> = u64s(&c["bytes"]).iter().map(|&b| b as u8).collect();
    let mut u = arbitrary::Unstructured::new(&bytes);
    match <Piecewise<T> as arbitrary::Arbitrary>::arbitrary(&mut u) {
        Err(_) => vec![0],
        Ok(pw) => {
            let mut xs: Vec<f64> = u64s(&c["xs"]).iter().map(|&x| f(x)).collect();
            let mut o = vec![1];
            let mut ev = PiecewiseEvaluator::new(&pw.segments);
            for &x in xs.iter() {
                o.push(pw.evaluate(x).to_bits());
                o.push(ev.evaluate(x).to_bits());
            }
            xs.retain(|x| !x.is_nan());
            xs.sort_by(|a, b| a.partial_cmp(b).unwrap_or(std::cmp::Ordering::Equal));
            for (x, r) in xs.iter().zip(pw.evaluate_v(xs.clone())) {
                o.push(pw.evaluate(*x).to_bits());
                o.push(r.to_bits());
            }
            o
        }
    }
}

// approx: [abs_diff_eq, relative_eq] as 0/1
fn op_approx<T: Num + approx::AbsDiffEq<Epsilon = f64> + approx::RelativeEq>(c: &Value) -> Vec<u64> {
    let a = T::of(&u64s(&c["a"]));
    let b = T::of(&u64s(&c["b"]));
    let eps = f(c["eps"].as_u64().unwrap());
    let rel = f(c["rel"].as_u64().unwrap());
    vec![a.abs_diff_eq(&b, eps) as u64, a.relative_eq(&b, eps, rel) as u64, (a.abs_diff_eq(&a, eps)) as u64]
}
fn op_approx_pw<T: Num + PartialEq + approx::AbsDiffEq<Epsilon = f64> + approx::RelativeEq>(c: &Value) -> Vec<u64> {
    let a = Piecewise { segments: parse_segs::<T>(&c["a"]) };
    let b = Piecewise { segments: parse_segs::<T>(&c["b"]) };
    let eps = f(c["eps"].as_u64().unwrap());
    let rel = f(c["rel"].as_u64().unwrap());
    // last two: the value compared with ITSELF (the same object): the answer may depend on the numbers only
    vec![
        a.abs_diff_eq(&b, eps) as u64,
        a.relative_eq(&b, eps, rel) as u64,
        (a == b) as u64,
        a.abs_diff_eq(&a, eps) as u64,
        a.relative_eq(&a, eps, rel) as u64,
    ]
}
fn op_approx_polyn(c: &Value) -> Vec<u64> {

    let a = PolyN(u64s(&c["a"]).iter().map(|&b| f(b)).collect());
    let b = PolyN(u64s(&c["b"]).iter().map(|&b| f(b)).collect());
    let eps = f(c["eps"].as_u64().unwrap());
    let rel = f(c["rel"].as_u64().unwrap());
    vec![a.abs_diff_eq(&b, eps) as u64, a.relative_eq(&b, eps, rel) as u64, (a == b) as u64]
}
fn defaults_of<T: approx::AbsDiffEq<Epsilon = f64> + approx::RelativeEq>(_c: &Value) -> Vec<u64> {
    vec![<T as AbsDiffEq>::default_epsilon().to_bits(), <T as RelativeEq>::default_max_relative().to_bits()]
}
fn defaults_of_pw<T: PartialEq + approx::AbsDiffEq<Epsilon = f64> + approx::RelativeEq>(_c: &Value) -> Vec<u64> {
    vec![
        <Piecewise<T> as AbsDiffEq>::default_epsilon().to_bits(),
        <Piecewise<T> as RelativeEq>::default_max_relative().to_bits(),
    ]
}
// default tolerances of the type named in the case (value types, Segment<..>, Piecewise<..>, PolyN)
fn op_approx_defaults(c: &Value) -> Vec<u64> {
    let ty = c.get("ty").and_then(|t| t.as_str()).unwrap_or("Poly3");
    if ty == "PolyN" {
        return defaults_of::<PolyN>(c);
    }
    if let Some(inner) = ty.strip_prefix("Piecewise<").and_then(|r| r.strip_suffix('>')) {
        return t_all!(inner; defaults_of_pw(c));
    }
    t_seg_all!(ty; defaults_of(c))
}

// libm table: ln / exp of every candidate argument, computed with the same f64 calls
fn libm_tables(c: &Value) -> (Vec<[u64; 2]>, Vec<[u64; 2]>) {
    let mut nums = Vec::new();
    fn collect(v: &Value, out: &mut Vec<u64>) {
        match v {
            Value::Number(n) => {
                if let Some(u) = n.as_u64() {
                    out.push(u)
                }
            }
            Value::Array(a) => a.iter().for_each(|x| collect(x, out)),
            Value::Object(o) => o.values().for_each(|x| collect(x, out)),
            _ => {}
        }
    }
    collect(c, &mut nums);
    nums.sort_unstable();
    nums.dedup();
    let mut lns = Vec::new();
    let mut exps = Vec::new();
    for &b in nums.iter() {
        let v = f(b);
        let l = v.ln();
        lns.push([b, l.to_bits()]);
        for x in [-l, (-l).recip().recip(), l, v, v.recip().recip()] {
            exps.push([x.to_bits(), x.exp().to_bits()]);
        }
    }
    exps.sort_unstable();
    exps.dedup();
    (lns, exps)
}

fn run_case(c: &Value) -> Vec<u64> {
    let op = c["op"].as_str().expect("op");
    let ty = c["ty"].as_str().unwrap_or("");
    match op {
        "k" => run_kernel(c["name"].as_str().expect("name"), &u64s(&c["args"])),
        "pw_eval" => t_all!(ty; op_pw_eval(c)),
        "evaluator" => t_all!(ty; op_evaluator(c)),
        "evaluate_v" => t_all!(ty; op_evaluate_v(c)),
        "evaluator_direct" => t_all!(ty; op_evaluator_direct(c)),
        "evaluate_v_mixed" => t_all!(ty; op_evaluate_v_mixed(c)),
        "pw_derivative_big" => op_pw_derivative_big(c),
        "spline_big" => op_spline_big(c),
        "integral_iter_adaptors" => t_integrable!(ty; op_integral_iter_adaptors(c)),
        "evaluate_v_rm" => t_all!(ty; op_evaluate_v_rm(c)),
        "evaluate_v_lazy" => t_all!(ty; op_evaluate_v_lazy(c)),
        "evaluate_v_pt" => t_all!(ty; op_evaluate_v_pt(c)),
        "pw_derivative" => t_poly!(ty; op_pw_derivative(c)),
        "pw_integral" => t_integrable!(ty; op_pw_integral(c)),
        "pw_indefinite" => t_integrable!(ty; op_pw_indefinite(c)),
        "pw_integral_all" => t_integrable!(ty; op_pw_integral_all(c)),
        "integral_iter" => t_integrable!(ty; op_integral_iter(c)),
        "integral_iter_ref" => t_integrable!(ty; op_integral_iter_ref(c)),
        "pw_mul" => {
            if ty == "IntOfLogPoly4" {
                op_pw_mul::<IntOfLogPoly4>(c)
            } else {
                t_mulassign!(ty; op_pw_mul(c))
            }
        }
        "pw_mul_assign" => t_mulassign!(ty; op_pw_mul_assign(c)),
        "pw_neg" => t_negadd!(ty; op_pw_neg(c)),
        "pw_translate" => t_all!(ty; op_pw_translate(c)),
        "pw_add" => op_pw_add(c),
        "pw_sub" => op_pw_sub(c),
        "pw_merge_eval" => op_pw_merge_eval(c),
        "integral_eval" => t_integrable!(ty; op_log_integral(c)),
        "linear" => op_linear(c),
        "linear_eval" => op_linear_eval(c),
        "spline" => op_spline(c),
        "polyn_eval" => op_polyn_eval(c),
        "polyn_translate" => op_polyn_translate(c),
        "pw_translate_polyn" => op_pw_translate_polyn(c),
        "arbitrary" => t_poly!(ty; op_arbitrary(c)),
        "arbitrary_rest" => t_poly!(ty; op_arbitrary_rest(c)),
        "arbitrary_nested" => t_poly!(ty; op_arbitrary_nested(c)),
        "arb_eval_nested" => t_poly!(ty; op_arb_eval_nested(c)),
        "arb_vec_f64" => op_arb_vec_f64(c),
        "arb_eval" => t_poly!(ty; op_arb_eval(c)),
        "approx" => t_seg_all!(ty; op_approx(c)),
        "approx_pw" => t_all!(ty; op_approx_pw(c)),
        "approx_polyn" => op_approx_polyn(c),
        "approx_defaults" => op_approx_defaults(c),
        "wire" => wire::op_wire(c),
        _ => panic!("HARNESS: unknown op {}", op),
    }
}

fn main() {
    std::panic::set_hook(Box::new(|info| {
        let msg = format!("{}", info);
        if msg.contains("HARNESS") {
            eprintln!("{}", msg);
        }
    }));
    // watchdog: a case that runs longer than the limit is reported as HANG and the process exits(3);
    // the driver restarts the harness on the remaining cases
    let started = std::sync::Arc::new(std::sync::atomic::AtomicU64::new(0));
    {
        let started = started.clone();
        let limit_ms: u64 = std::env::var("PP_CASE_LIMIT_MS").ok().and_then(|v| v.parse().ok()).unwrap_or(4000);
        std::thread::spawn(move || loop {
            std::thread::sleep(std::time::Duration::from_millis(100));
            let t0 = started.load(std::sync::atomic::Ordering::SeqCst);
            if t0 != 0 {
                let now = std::time::SystemTime::now().duration_since(std::time::UNIX_EPOCH).unwrap().as_millis() as u64;
                if now > t0 + limit_ms {
                    println!("{{\"r\":\"HANG\"}}");
                    std::process::exit(3);
                }
            }
        });
    }
    let stdin = std::io::stdin();
    let stdout = std::io::stdout();
    let mut out = std::io::LineWriter::new(stdout.lock());
    for line in stdin.lock().lines() {
        let line = line.expect("read");
        if line.trim().is_empty() {
            continue;
        }
        let c: Value = serde_json::from_str(&line).expect("json");
        started.store(
            std::time::SystemTime::now().duration_since(std::time::UNIX_EPOCH).unwrap().as_millis() as u64,
            std::sync::atomic::Ordering::SeqCst,
        );
        let r = catch_unwind(AssertUnwindSafe(|| run_case(&c)));
        started.store(0, std::sync::atomic::Ordering::SeqCst);
        let mut o = match r {
            Ok(v) => json!({ "r": v }),
            Err(e) => {
                let msg = if let Some(s) = e.downcast_ref::<String>() {
                    s.clone()
                } else if let Some(s) = e.downcast_ref::<&str>() {
                    s.to_string()
                } else {
                    "?".into()
                };
                if msg.contains("HARNESS") {
                    json!({ "r": "HARNESS_ERROR", "msg": msg })
                } else {
                    json!({ "r": "PANIC", "msg": msg })
                }
            }
        };
        if c.get("libm").and_then(|v| v.as_bool()).unwrap_or(false) {
            let (l, e) = libm_tables(&c);
            o["ln"] = json!(l);
            o["exp"] = json!(e);
        }
        writeln!(out, "{}", o).unwrap();
    }
}
