// C18: serialisation.  For a value of any serialisable type:
//   * the serde data-model calls its derive(Serialize) makes, recorded as a token stream
//     (1 bits = f64; 10 id = newtype struct; 11 n = tuple; 12 id n = struct; 13 id = field; 14 n = seq);
//   * its borsh bytes;
//   * round trips through serde_json text (finite contents only), serde_cbor and borsh, compared bit for bit.
use crate::{parse_segs, u64s, Num};
use piecewise_polynomial::*;
use serde::ser;
use serde::{Deserialize, Serialize};
use serde_json::Value;

#[derive(Debug)]
pub struct RecErr(String);
impl std::fmt::Display for RecErr {
    fn fmt(&self, f: &mut std::fmt::Formatter) -> std::fmt::Result {
        write!(f, "{}", self.0)
    }
}
impl std::error::Error for RecErr {}
impl ser::Error for RecErr {
    fn custom<T: std::fmt::Display>(msg: T) -> Self {
        RecErr(msg.to_string())
    }
}

pub struct Rec {
    pub out: Vec<u64>,
}
fn name_id(n: &str) -> u64 {
    match n {
        "Knot" => 1,
        "Poly0" => 10,
        "Poly1" => 11,
        "Poly2" => 12,
        "Poly3" => 13,
        "Poly4" => 14,
        "Poly5" => 15,
        "Poly6" => 16,
        "Poly7" => 17,
        "Poly8" => 18,
        "Log" => 20,
        "IntOfLog" => 21,
        "IntOfLogPoly4" => 22,
        "Segment" => 23,
        "Piecewise" => 24,
        _ => 999,
    }
}
fn field_id(n: &str) -> u64 {
    match n {
        "x" => 1,
        "y" => 2,
        "k" => 3,
        "poly" => 4,
        "coeffs" => 5,
        "u" => 6,
        "end" => 7,
        "segments" => 8,
        _ => 999,
    }
}
macro_rules! unsupported {
    ($($f:ident($($t:ty),*);)*) => { $( fn $f(self $(, _: $t)*) -> Result<Self::Ok, RecErr> { Err(RecErr(format!("unexpected {}", stringify!($f)))) } )* };
}
impl<'a> ser::Serializer for &'a mut Rec {
    type Ok = ();
    type Error = RecErr;
    type SerializeSeq = Self;
    type SerializeTuple = Self;
    type SerializeTupleStruct = Self;
    type SerializeTupleVariant = Self;
    type SerializeMap = Self;
    type SerializeStruct = Self;
    type SerializeStructVariant = Self;
    fn serialize_f64(self, v: f64) -> Result<(), RecErr> {
        self.out.push(1);
        self.out.push(v.to_bits());
        Ok(())
    }
    fn serialize_newtype_struct<T: ?Sized + Serialize>(self, name: &'static str, value: &T) -> Result<(), RecErr> {
        self.out.push(10);
        self.out.push(name_id(name));
        value.serialize(self)
    }
    fn serialize_tuple(self, len: usize) -> Result<Self, RecErr> {
        self.out.push(11);
        self.out.push(len as u64);
        Ok(self)
    }
    fn serialize_struct(self, name: &'static str, len: usize) -> Result<Self, RecErr> {
        self.out.push(12);
        self.out.push(name_id(name));
        self.out.push(len as u64);
        Ok(self)
    }
    fn serialize_seq(self, len: Option<usize>) -> Result<Self, RecErr> {
        self.out.push(14);
        self.out.push(len.map(|l| l as u64).unwrap_or(u64::MAX));
        Ok(self)
    }
    unsupported! {
        serialize_bool(bool); serialize_i8(i8); serialize_i16(i16); serialize_i32(i32); serialize_i64(i64);
        serialize_u8(u8); serialize_u16(u16); serialize_u32(u32); serialize_u64(u64); serialize_f32(f32);
        serialize_char(char); serialize_str(&str); serialize_bytes(&[u8]); serialize_none(); serialize_unit();
        serialize_unit_struct(&'static str);
        serialize_unit_variant(&'static str, u32, &'static str);
    }
    fn serialize_some<T: ?Sized + Serialize>(self, _: &T) -> Result<(), RecErr> {
        Err(RecErr("unexpected some".into()))
    }
    fn serialize_newtype_variant<T: ?Sized + Serialize>(self, _: &'static str, _: u32, _: &'static str, _: &T) -> Result<(), RecErr> {
        Err(RecErr("unexpected newtype variant".into()))
    }
    fn serialize_tuple_struct(self, _: &'static str, _: usize) -> Result<Self, RecErr> {
        Err(RecErr("unexpected tuple struct".into()))
    }
    fn serialize_tuple_variant(self, _: &'static str, _: u32, _: &'static str, _: usize) -> Result<Self, RecErr> {
        Err(RecErr("unexpected tuple variant".into()))
    }
    fn serialize_map(self, _: Option<usize>) -> Result<Self, RecErr> {
        Err(RecErr("unexpected map".into()))
    }
    fn serialize_struct_variant(self, _: &'static str, _: u32, _: &'static str, _: usize) -> Result<Self, RecErr> {
        Err(RecErr("unexpected struct variant".into()))
    }
}
impl<'a> ser::SerializeSeq for &'a mut Rec {
    type Ok = ();
    type Error = RecErr;
    fn serialize_element<T: ?Sized + Serialize>(&mut self, v: &T) -> Result<(), RecErr> {
        v.serialize(&mut **self)
    }
    fn end(self) -> Result<(), RecErr> {
        Ok(())
    }
}
impl<'a> ser::SerializeTuple for &'a mut Rec {
    type Ok = ();
    type Error = RecErr;
    fn serialize_element<T: ?Sized + Serialize>(&mut self, v: &T) -> Result<(), RecErr> {
        v.serialize(&mut **self)
    }
    fn end(self) -> Result<(), RecErr> {
        Ok(())
    }
}
impl<'a> ser::SerializeStruct for &'a mut Rec {
    type Ok = ();
    type Error = RecErr;
    fn serialize_field<T: ?Sized + Serialize>(&mut self, key: &'static str, v: &T) -> Result<(), RecErr> {
        self.out.push(13);
        self.out.push(field_id(key));
        v.serialize(&mut **self)
    }
    fn end(self) -> Result<(), RecErr> {
        Ok(())
    }
}
macro_rules! never_impl {
    ($tr:ident, $m:ident $(, $k:ty)?) => {
        impl<'a> ser::$tr for &'a mut Rec {
            type Ok = ();
            type Error = RecErr;
            fn $m<T: ?Sized + Serialize>(&mut self, $(_: $k,)? _: &T) -> Result<(), RecErr> {
                Err(RecErr("unexpected".into()))
            }
            fn end(self) -> Result<(), RecErr> {
                Ok(())
            }
        }
    };
}
never_impl!(SerializeTupleStruct, serialize_field);
never_impl!(SerializeTupleVariant, serialize_field);
never_impl!(SerializeStructVariant, serialize_field, &'static str);
impl<'a> ser::SerializeMap for &'a mut Rec {
    type Ok = ();
    type Error = RecErr;
    fn serialize_key<T: ?Sized + Serialize>(&mut self, _: &T) -> Result<(), RecErr> {
        Err(RecErr("unexpected".into()))
    }
    fn serialize_value<T: ?Sized + Serialize>(&mut self, _: &T) -> Result<(), RecErr> {
        Err(RecErr("unexpected".into()))
    }
    fn end(self) -> Result<(), RecErr> {
        Ok(())
    }
}

trait Bits {
    fn bits(&self) -> Vec<u64>;
    fn all_finite(&self) -> bool {
        self.bits().iter().all(|&b| f64::from_bits(b).is_finite())
    }
}
impl<T: Num> Bits for T {
    fn bits(&self) -> Vec<u64> {
        let mut o = Vec::new();
        self.put(&mut o);
        o
    }
}
struct PwBits<'a, T: Num>(&'a Piecewise<T>);
fn pw_bits<T: Num>(p: &Piecewise<T>) -> Vec<u64> {
    let mut o = vec![p.segments.len() as u64];
    for s in p.segments.iter() {
        s.put(&mut o);
    }
    o
}

// a reader that hands out at most `chunk` bytes per call (sockets, buffer boundaries): legal for io::Read
struct Chunked<'a> {
    data: &'a [u8],
    chunk: usize,
}
impl<'a> borsh::io::Read for Chunked<'a> {
    fn read(&mut self, buf: &mut [u8]) -> borsh::io::Result<usize> {
        let n = buf.len().min(self.chunk).min(self.data.len());
        buf[..n].copy_from_slice(&self.data[..n]);
        self.data = &self.data[n..];
        Ok(n)
    }
}

// the value nested in wrapper types whose derived Deserialize goes through serde's internal buffer (flatten, untagged,
// internally tagged): the value must survive that route as well, in every format
#[derive(Serialize)]
struct InnerS<'a, V> {
    value: &'a V,
}
#[derive(Serialize)]
struct FlatS<'a, V> {
    tag: u32,
    #[serde(flatten)]
    inner: InnerS<'a, V>,
}
#[derive(Deserialize)]
struct InnerD<V> {
    value: V,
}
#[derive(Deserialize)]
struct FlatD<V> {
    tag: u32,
    #[serde(flatten)]
    inner: InnerD<V>,
}
#[derive(Serialize)]
#[serde(untagged)]
enum UntaggedS<'a, V> {
    A(&'a V),
}
#[derive(Deserialize)]
#[serde(untagged)]
enum UntaggedD<V> {
    A(V),
    #[allow(dead_code)]
    B(bool),
}
#[derive(Serialize)]
#[serde(tag = "kind")]
enum TaggedS<'a, V> {
    Curve { value: &'a V },
}
#[derive(Deserialize)]
#[serde(tag = "kind")]
enum TaggedD<V> {
    Curve { value: V },
}

fn report<V>(v: &V, bits: &dyn Fn(&V) -> Vec<u64>, prefail: bool) -> Vec<u64>
where
    V: Serialize + serde::de::DeserializeOwned + borsh::BorshSerialize + borsh::BorshDeserialize,
{
    if prefail {
        // a serialisation attempt that fails half way (writer too small); whatever it leaves behind must not
        // influence this or any later serialisation
        let mut tiny = [0u8; 3];
        let _ = borsh::BorshSerialize::serialize(v, &mut &mut tiny[..]);
    }
    let mut rec = Rec { out: Vec::new() };
    let tokens = match Serialize::serialize(v, &mut rec) {
        Ok(()) => rec.out,
        // a call outside the expected data-model vocabulary: report a marker token (the model will disagree) and
        // still run the round trips, so that a value that does not survive them is reported as the failing input
        Err(_) => vec![0xBAD0_BAD0_BAD0u64],
    };
    let orig = bits(v);
    let finite = orig.iter().skip(0).all(|&b| f64::from_bits(b).is_finite() || b < (1u64 << 32));
    // serde_json text (finite contents only: JSON has no inf/NaN)
    let json_ok: u64 = if finite {
        let text = serde_json::to_string(v).expect("to_string");
        // three ways in: borrowed text, a reader (no borrowing possible), and the Value tree
        let a = match serde_json::from_str::<V>(&text) {
            Ok(back) => bits(&back) == orig,
            Err(_) => false,
        };
        let b = match serde_json::from_reader::<_, V>(text.as_bytes()) {
            Ok(back) => bits(&back) == orig,
            Err(_) => false,
        };
        let c = match serde_json::to_value(v).ok().and_then(|t| serde_json::from_value::<V>(t).ok()) {
            Some(back) => bits(&back) == orig,
            None => false,
        };
        let w1 = match serde_json::to_string(&FlatS { tag: 7, inner: InnerS { value: v } }).ok().and_then(|t| serde_json::from_str::<FlatD<V>>(&t).ok()) {
            Some(back) => back.tag == 7 && bits(&back.inner.value) == orig,
            None => false,
        };
        let w2 = match serde_json::to_string(&UntaggedS::A(v)).ok().and_then(|t| serde_json::from_str::<UntaggedD<V>>(&t).ok()) {
            Some(UntaggedD::A(back)) => bits(&back) == orig,
            _ => false,
        };
        let w3 = match serde_json::to_string(&TaggedS::Curve { value: v }).ok().and_then(|t| serde_json::from_str::<TaggedD<V>>(&t).ok()) {
            Some(TaggedD::Curve { value }) => bits(&value) == orig,
            None => false,
        };
        (a && b && c && w1 && w2 && w3) as u64
    } else {
        2
    };
    let cbor_ok: u64 = match serde_cbor::to_vec(v) {
        Ok(buf) => {
            let a = match serde_cbor::from_slice::<V>(&buf) {
                Ok(back) => bits(&back) == orig,
                Err(_) => false,
            };
            let b = match serde_cbor::from_reader::<V, _>(&buf[..]) {
                Ok(back) => bits(&back) == orig,
                Err(_) => false,
            };
            let w1 = match serde_cbor::to_vec(&FlatS { tag: 7, inner: InnerS { value: v } }).ok().and_then(|t| serde_cbor::from_slice::<FlatD<V>>(&t).ok()) {
                Some(back) => back.tag == 7 && bits(&back.inner.value) == orig,
                None => false,
            };
            let w2 = match serde_cbor::to_vec(&UntaggedS::A(v)).ok().and_then(|t| serde_cbor::from_slice::<UntaggedD<V>>(&t).ok()) {
                Some(UntaggedD::A(back)) => bits(&back) == orig,
                _ => false,
            };
            let w3 = match serde_cbor::to_vec(&TaggedS::Curve { value: v }).ok().and_then(|t| serde_cbor::from_slice::<TaggedD<V>>(&t).ok()) {
                Some(TaggedD::Curve { value }) => bits(&value) == orig,
                None => false,
            };
            (a && b && w1 && w2 && w3) as u64
        }
        Err(_) => 0,
    };
    // the same bytes read back through readers that return short counts
    let mut chunked_ok: u64 = 1;
    if let Ok(buf) = borsh::to_vec(v) {
        for chunk in [1usize, 5, 7, 33] {
            let mut rd = Chunked { data: &buf, chunk };
            match borsh::from_reader::<_, V>(&mut rd) {
                Ok(back) => {
                    if bits(&back) != orig {
                        chunked_ok = 0;
                    }
                }
                Err(_) => chunked_ok = 0,
            }
        }
        // the value FOLLOWED by more data in one stream: value, the same value again, then a marker; each reader must hand back
        // both values bit for bit, then the marker, and then be exhausted (a reader that takes more than its own bytes shows here)
        let mut stream = buf.clone();
        stream.extend_from_slice(&buf);
        stream.extend_from_slice(&0x1122_3344_5566_7788u64.to_le_bytes());
        for chunk in [usize::MAX, 1usize, 7, 13, 64, 4096] {
            let mut rd = Chunked { data: &stream, chunk };
            let a = <V as borsh::BorshDeserialize>::deserialize_reader(&mut rd);
            let b = <V as borsh::BorshDeserialize>::deserialize_reader(&mut rd);
            let m = <u64 as borsh::BorshDeserialize>::deserialize_reader(&mut rd);
            let fine = match (a, b, m) {
                (Ok(a), Ok(b), Ok(m)) => bits(&a) == orig && bits(&b) == orig && m == 0x1122_3344_5566_7788u64 && rd.data.is_empty(),
                _ => false,
            };
            if !fine {
                chunked_ok = 2;
            }
        }
    } else {
        chunked_ok = 3;
    }
    let (bytes, borsh_ok): (Vec<u8>, u64) = match borsh::to_vec(v) {
        Ok(buf) => {
            let ok = match borsh::from_slice::<V>(&buf) {
                Ok(back) => (bits(&back) == orig) as u64,
                Err(_) => 0,
            };
            (buf, ok)
        }
        Err(_) => (Vec::new(), 3),
    };
    let mut o = vec![tokens.len() as u64];
    o.extend(tokens);
    o.push(bytes.len() as u64);
    o.extend(bytes.iter().map(|&b| b as u64));
    o.push(json_ok);
    o.push(cbor_ok);
    o.push(borsh_ok);
    o.push(chunked_ok);
    o
}

fn wire_value<T>(c: &Value) -> Vec<u64>
where
    T: Num + Serialize + serde::de::DeserializeOwned + borsh::BorshSerialize + borsh::BorshDeserialize,
{
    let v = T::of(&u64s(&c["v"]));
    report(&v, &|x: &T| x.bits(), c.get("prefail").and_then(|b| b.as_bool()).unwrap_or(false))
}
fn wire_pw<T>(c: &Value) -> Vec<u64>
where
    T: Num + Serialize + serde::de::DeserializeOwned + borsh::BorshSerialize + borsh::BorshDeserialize,
{
    let v = Piecewise { segments: parse_segs::<T>(&c["segs"]) };
    let _ = PwBits(&v);
    report(&v, &|x: &Piecewise<T>| pw_bits(x), c.get("prefail").and_then(|b| b.as_bool()).unwrap_or(false))
}

macro_rules! by_type {
    ($ty:expr; $f:ident($c:expr)) => {{
        let ty: &str = $ty;
        let mut res: Option<Vec<u64>> = None;
        macro_rules! go { ($t:ty) => { if res.is_none() && ty == <$t as Num>::name() { res = Some($f::<$t>($c)); } } }
        go!(Poly0); go!(Poly1); go!(Poly2); go!(Poly3); go!(Poly4); go!(Poly5); go!(Poly6); go!(Poly7); go!(Poly8);
        go!(Log<Poly0>); go!(Log<Poly1>); go!(Log<Poly2>); go!(Log<Poly3>); go!(Log<Poly4>); go!(Log<Poly5>); go!(Log<Poly6>); go!(Log<Poly7>); go!(Log<Poly8>);
        go!(IntOfLog<Poly0>); go!(IntOfLog<Poly1>); go!(IntOfLog<Poly2>); go!(IntOfLog<Poly3>); go!(IntOfLog<Poly4>); go!(IntOfLog<Poly5>); go!(IntOfLog<Poly6>); go!(IntOfLog<Poly7>); go!(IntOfLog<Poly8>);
        go!(IntOfLogPoly4);
        res
    }};
}
macro_rules! by_seg_type {
    ($ty:expr; $f:ident($c:expr)) => {{
        let ty: &str = $ty;
        let mut res: Option<Vec<u64>> = None;
        macro_rules! go { ($t:ty) => { if res.is_none() && ty == <Segment<$t> as Num>::name() { res = Some($f::<Segment<$t>>($c)); } } }
        go!(Poly0); go!(Poly1); go!(Poly2); go!(Poly3); go!(Poly4); go!(Poly5); go!(Poly6); go!(Poly7); go!(Poly8);
        go!(Log<Poly0>); go!(Log<Poly1>); go!(Log<Poly2>); go!(Log<Poly3>); go!(Log<Poly4>); go!(Log<Poly5>); go!(Log<Poly6>); go!(Log<Poly7>); go!(Log<Poly8>);
        go!(IntOfLog<Poly0>); go!(IntOfLog<Poly1>); go!(IntOfLog<Poly2>); go!(IntOfLog<Poly3>); go!(IntOfLog<Poly4>); go!(IntOfLog<Poly5>); go!(IntOfLog<Poly6>); go!(IntOfLog<Poly7>); go!(IntOfLog<Poly8>);
        go!(IntOfLogPoly4);
        res
    }};
}

pub fn op_wire(c: &Value) -> Vec<u64> {
    let ty = c["ty"].as_str().expect("ty");
    if ty == "Knot" {
        return wire_value::<Knot>(c);
    }
    if let Some(inner) = ty.strip_prefix("Piecewise<") {
        let inner = &inner[..inner.len() - 1];
        return by_type!(inner; wire_pw(c)).unwrap_or_else(|| panic!("HARNESS: wire type {}", ty));
    }
    if ty.starts_with("Segment<") {
        return by_seg_type!(ty; wire_value(c)).unwrap_or_else(|| panic!("HARNESS: wire type {}", ty));
    }
    by_type!(ty; wire_value(c)).unwrap_or_else(|| panic!("HARNESS: wire type {}", ty))
}
