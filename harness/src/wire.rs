// C18: serialisation round trips (filled in below)
use serde_json::Value;
pub fn op_wire(_c: &Value) -> Vec<u64> {
    panic!("HARNESS: wire op not built yet")
}
